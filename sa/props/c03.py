"""C03 COMPARE and ordered collections follow the Tezos total order (comparator structure).

 1 R-ORD  PairType / OptionType / OrType __lt__/__eq__ and compare() interpreted over the order domain: every pair of
          abstract leaves has an outcome in {LT, EQ, GT}; all outcome combinations and shapes are enumerated and the result
          compared with lexicographic / None<Some / Left<Right; irreflexivity and asymmetry of __lt__ on the same space.
 2 R-ORD  AddressType.__lt__ over address kinds x {plain, %entrypoint}: implicit < originated < rollup, then address, then
          entrypoint.
 3 R-ORD/R-TABLE KeyType.__lt__: curve ranks ed < secp < p256 < bls for every public-key kind the validator accepts.
 4 R-FLOW one relation everywhere: sets/maps order keys only through sorted(); comparable classes defining __eq__ define
          __hash__ (duplicate test is len(set(keys))).
"""
from __future__ import annotations

import ast
import itertools
from typing import Any, Dict, List, Tuple

from ..absint import App, ClassRef, FuncRef, Hooks, Interp, Obj, Sym, vrepr
from ..model import AnalysisError, NotConstant, Repo, dotted, norm
from ..report import Check

T = 'pytezos.michelson.types'
MT = f'{T}.base.MichelsonType'
LT, EQ, GT = 'LT', 'EQ', 'GT'


class Leaf(Obj):
    def __init__(self, side: str, idx: str):
        super().__init__(MT, {}, tag=f'{side}{idx}')
        self.side = side
        self.idx = idx

    def key(self):
        return ('leaf', self.side, self.idx)

    def __deepcopy__(self, memo):
        return self


class OrdHooks(Hooks):
    """outcome[idx] is the order of leaf a<idx> relative to leaf b<idx>."""

    def __init__(self, outcome: Dict[str, str]):
        self.outcome = outcome

    def inline(self, it, fi):
        return True

    def obj_truth(self, it, obj):
        # a component is a Michelson value of unknown class: "", 0x, False, {} are falsy values, so its truthiness is not known
        return None if isinstance(obj, Leaf) else NotImplemented

    def compare(self, it, op, a, b, node):
        if isinstance(a, Leaf) and isinstance(b, Leaf):
            if a.idx != b.idx:
                # components at different positions (Left payload against Right payload, first against second): nothing is known about
                # their relative order, every outcome is explored (a comparator that lets it decide gives inconsistent results)
                k = ('cross', a.tag, b.tag) if a.tag < b.tag else ('cross', b.tag, a.tag)
                if k not in it.memo:
                    it.memo[k] = (LT, EQ, GT)[it.choose(3)]
                o = it.memo[k]
                if a.tag > b.tag:
                    o = {LT: GT, GT: LT, EQ: EQ}[o]
            elif a.side == b.side:
                o = EQ
            else:
                o = self.outcome[a.idx]
                if a.side == 'b':
                    o = {LT: GT, GT: LT, EQ: EQ}[o]
            return {'<': o == LT, '>': o == GT, '==': o == EQ, '!=': o != EQ, '<=': o != GT, '>=': o != LT}[op]
        if op in ('is', 'is not'):
            return NotImplemented
        if (isinstance(a, Leaf) or isinstance(b, Leaf)) and op in ('==', '!='):
            other = b if isinstance(a, Leaf) else a
            if not isinstance(other, Leaf):
                r = False  # a value never equals the Undefined placeholder / None
                return r if op == '==' else not r
        return NotImplemented


class _AbsentHooks(Hooks):
    def inline(self, it, fi):
        return fi.module.name.startswith(T)

    def name(self, it, name, node):
        return NotImplemented


def mk_pair(repo, side, shape):
    """shape: nested tuple of leaf indices, e.g. ('0', '1') or ('0', ('1', '2'))"""
    items = tuple(mk_pair(repo, side, s) if isinstance(s, tuple) else Leaf(side, s) for s in shape)
    return Obj(f'{T}.pair.PairType', {'items': items})


def leaves_of(shape) -> List[str]:
    out: List[str] = []
    for s in shape:
        out += leaves_of(s) if isinstance(s, tuple) else [s]
    return out


def spec_lex(outs: List[str]) -> int:
    for o in outs:
        if o == LT:
            return -1
        if o == GT:
            return 1
    return 0


def run_cmp(repo: Repo, a, b, outcome, fn='compare'):
    """-> ('ok', value) | ('raise', cls) | ('fork', n)"""
    hooks = OrdHooks(outcome)
    it = Interp(repo, hooks, max_depth=12)
    it.max_recursion = 4  # nested pairs recurse through __lt__/__eq__
    if fn == 'compare':
        fi = repo.func('pytezos.michelson.instructions.compare.compare')
        res = it.run_function(fi, [a, b])
    else:
        fi = repo.find_method(a.cls, fn)
        if fi is None:
            raise AnalysisError(f'{a.cls} has no {fn}')
        res = it.run_paths(lambda i: i.call_function(FuncRef(fi, a, True), [b], {}, None, force_inline=True))
    outs = {('ok', p.value) if p.outcome == 'return' and isinstance(p.value, (bool, int)) else
            (('raise', p.value.cls) if p.outcome == 'raise' else (p.outcome, vrepr(p.value))) for p in res}
    if len(outs) != 1:
        return ('fork', len(res), sorted(map(str, outs))[:4])
    return next(iter(outs))


def run(repo: Repo, chk: Check) -> None:
    chk.explanation = (
        'The comparators are interpreted over a finite order domain: leaves are opaque, each pair of corresponding leaves has an '
        'outcome LT/EQ/GT, and every combination of outcomes and shapes is enumerated (3^n cases for an n-leaf pair, shape pairs '
        'for option/or, kinds x entrypoint flags for addresses).  The result of compare()/__lt__ in every case is compared with '
        'the Michelson order.  Leaf comparisons (int, string, bytes, base58 strings of one kind) are delegated to Python.'
    )
    chk.assumptions += ['Python order on int/str/bytes equals the Michelson order for ASCII strings',
                        'base58 strings of one fixed-length kind are ordered like their payload bytes']
    undefined = Obj(f'{T}.base.undefined', {})

    # ---- 1 composite comparators -------------------------------------------------------------------------------
    chk.set_clause('C03.1')
    pt = repo.cls(f'{T}.pair.PairType')
    for shape in (('0', '1'), ('0', ('1', '2'))):
        idxs = leaves_of(shape)
        fails, asym = [], []
        n = 0
        for combo in itertools.product((LT, EQ, GT), repeat=len(idxs)):
            outcome = dict(zip(idxs, combo))
            a, b = mk_pair(repo, 'a', shape), mk_pair(repo, 'b', shape)
            n += 1
            r = run_cmp(repo, a, b, outcome)
            want = spec_lex(list(combo))
            if r != ('ok', want):
                fails.append({'outcomes': dict(outcome), 'compare': r[1] if r[0] == 'ok' else r, 'spec': want})
            lt_ab = run_cmp(repo, a, b, outcome, '__lt__')
            lt_ba = run_cmp(repo, b, a, outcome, '__lt__')
            if lt_ab == ('ok', True) and lt_ba == ('ok', True):
                asym.append(dict(outcome))
        label = 'pair of %d leaves%s' % (len(idxs), ' (right comb)' if len(idxs) == 3 else '')
        chk.ob('R-ORD', pt.qualname + '.__lt__', not fails, f'lexicographic: {label}', pt.methods['__lt__'].loc,
               {'cases': n, 'failing': fails[:4]},
               what=f'COMPARE on pairs is not lexicographic in {len(fails)} of {n} outcome combinations, e.g. {fails[:1]} '
                    '(first component smaller, second larger compares as greater)')
        chk.ob('R-ORD', pt.qualname + '.__lt__', not asym, f'asymmetric: {label}', pt.methods['__lt__'].loc, {'both_less': asym[:4]},
               what=f'a < b and b < a both hold for {asym[:1]}: not a strict order, sorted() output depends on input order')
    # reflexive case
    a = mk_pair(repo, 'a', ('0', '1'))
    r = run_cmp(repo, a, a, {'0': EQ, '1': EQ}, '__lt__')
    chk.ob('R-ORD', pt.qualname + '.__lt__', r == ('ok', False), 'irreflexive', pt.methods['__lt__'].loc, {'lt(a,a)': r},
           what='a pair compares less than itself')

    ot = repo.cls(f'{T}.option.OptionType')
    fails = []
    n = 0
    for sa, sb in itertools.product(('None', 'Some'), repeat=2):
        for o in ((LT, EQ, GT) if (sa, sb) == ('Some', 'Some') else (EQ,)):
            a = Obj(ot.qualname, {'item': Leaf('a', '0') if sa == 'Some' else None})
            b = Obj(ot.qualname, {'item': Leaf('b', '0') if sb == 'Some' else None})
            want = {('None', 'None'): 0, ('None', 'Some'): -1, ('Some', 'None'): 1}.get((sa, sb), spec_lex([o]))
            r = run_cmp(repo, a, b, {'0': o})
            n += 1
            if r != ('ok', want):
                fails.append({'a': sa, 'b': sb, 'inner': o, 'compare': r, 'spec': want})
            # sorted() and the enclosing pair comparator use __lt__ / __eq__ directly (compare() asks __eq__ first and hides lt(None, None))
            for fn, exp in (('__lt__', want == -1), ('__eq__', want == 0)):
                r2 = run_cmp(repo, a, b, {'0': o}, fn)
                n += 1
                if r2 != ('ok', exp):
                    fails.append({'a': sa, 'b': sb, 'inner': o, fn: r2, 'spec': exp})
    chk.ob('R-ORD', ot.qualname + '.__lt__', not fails, 'None < Some, Some by content', ot.methods['__lt__'].loc, {'cases': n, 'failing': fails[:4]},
           what=f'option order differs from None < Some _: {fails[:2]}')

    orr = repo.cls(f'{T}.sum.OrType')
    fails = []
    n = 0
    for sa, sb in itertools.product(('Left', 'Right'), repeat=2):
        for o in ((LT, EQ, GT) if sa == sb else (EQ,)):
            def mk(side, s):
                return Obj(orr.qualname, {'items': (Leaf(side, '0'), undefined) if s == 'Left' else (undefined, Leaf(side, '1'))})
            a, b = mk('a', sa), mk('b', sb)
            want = {('Left', 'Right'): -1, ('Right', 'Left'): 1}.get((sa, sb), spec_lex([o]))
            r = run_cmp(repo, a, b, {'0': o, '1': o})
            n += 1
            if r != ('ok', want):
                fails.append({'a': sa, 'b': sb, 'inner': o, 'compare': r, 'spec': want})
            for fn, exp in (('__lt__', want == -1), ('__eq__', want == 0)):
                r2 = run_cmp(repo, a, b, {'0': o, '1': o}, fn)
                n += 1
                if r2 != ('ok', exp):
                    fails.append({'a': sa, 'b': sb, 'inner': o, fn: r2, 'spec': exp})
    chk.ob('R-ORD', orr.qualname + '.__lt__', not fails, 'Left < Right, same side by content', orr.methods['__lt__'].loc,
           {'cases': n, 'failing': fails[:4]}, what=f'or order differs from Left _ < Right _: {fails[:2]}')

    # ---- 2 addresses -------------------------------------------------------------------------------------------
    chk.set_clause('C03.2')
    enc = repo.module('pytezos.crypto.encoding')

    from ..validators import validator_prefixes as _vp

    def validator_prefixes(fname):
        pl = _vp(repo, fname)
        if pl is None:
            raise AnalysisError(f'prefix list of {fname} not found')
        return [p.decode() for p in pl]

    preds = {n: validator_prefixes(n) for n in ('is_pkh', 'is_kt', 'is_sr')}
    kinds = preds['is_pkh'] + preds['is_kt'] + preds['is_sr']
    rank = {k: (0 if k in preds['is_pkh'] else 1 if k in preds['is_kt'] else 2) for k in kinds}
    curve = {k: i for i, k in enumerate(['tz1', 'tz2', 'tz3', 'tz4'])}
    chk.require(set(preds['is_pkh']) == set(curve), f'implicit account kinds changed: {preds["is_pkh"]}; curve order table must be revisited')
    at = repo.cls(f'{T}.domain.AddressType')
    cats: Dict[str, List[Any]] = {}
    ncases = 0
    for ka, kb in itertools.product(kinds, repeat=2):
        for epa, epb in itertools.product((False, True), repeat=2):
            addr_outs = (LT, EQ, GT) if ka == kb else (EQ,)
            for ao in addr_outs:
                same = ka == kb and ao == EQ
                # an absent entrypoint is the entrypoint `default`: against a named one the order is that of 'default' and the name (either way)
                ep_outs = (LT, EQ, GT) if (same and epa and epb) else (LT, GT) if (same and epa != epb) else (EQ,)
                for eo in ep_outs:
                    if ka == kb and ao == EQ and not epa and not epb:
                        want = 0
                    elif rank[ka] != rank[kb]:
                        want = -1 if rank[ka] < rank[kb] else 1
                    elif ka != kb:
                        want = -1 if curve[ka] < curve[kb] else 1
                    elif ao != EQ:
                        want = spec_lex([ao])
                    else:
                        want = spec_lex([eo])
                    if want is None:
                        continue
                    a = Obj(at.qualname, {'value': AddrVal('a', ka, epa)})
                    b = Obj(at.qualname, {'value': AddrVal('b', kb, epb)})
                    hooks = AddrHooks(preds, ao, eo)
                    it = Interp(repo, hooks, max_depth=3)
                    fi = repo.func('pytezos.michelson.instructions.compare.compare')
                    res = it.run_function(fi, [a, b])
                    ncases += 1
                    got = res[0].value if len(res) == 1 and res[0].outcome == 'return' else ('raise/fork', len(res))
                    if rank[ka] != rank[kb]:
                        cat = f'{["implicit", "originated", "rollup"][min(rank[ka], rank[kb])]} vs {["implicit", "originated", "rollup"][max(rank[ka], rank[kb])]}'
                    elif ka != kb:
                        cat = 'implicit accounts of different curves'
                    else:
                        cat = 'same kind'
                    cat += ' (with entrypoint)' if (epa or epb) else ' (plain)'
                    cats.setdefault(cat, [])
                    if got != want:
                        cats[cat].append({'a': f'{ka}{"%ep" if epa else ""}', 'b': f'{kb}{"%ep" if epb else ""}', 'address': ao,
                                          'entrypoint': eo, 'compare': got, 'spec': want})
    for cat, bad in sorted(cats.items()):
        chk.ob('R-ORD', at.qualname + '.__lt__', not bad, cat, at.methods['__lt__'].loc if '__lt__' in at.methods else at.loc,
               {'failing': bad[:4], 'failing_count': len(bad)},
               what=f'address order wrong for {cat}: e.g. {bad[:1]}')
    chk.note('address_cases', ncases)
    chk.minimum('address order cases', ncases, 100)

    # ---- 3 keys ------------------------------------------------------------------------------------------------
    chk.set_clause('C03.3')
    kt = repo.cls(f'{T}.domain.KeyType')
    pk_prefixes = [p for p in validator_prefixes('is_public_key') if p.endswith('pk')]
    spec_rank = {'edpk': 0, 'sppk': 1, 'p2pk': 2, 'BLpk': 3}
    chk.require(set(pk_prefixes) <= set(spec_rank), f'public key kinds changed: {pk_prefixes}')
    chk.minimum('public key kinds', len(pk_prefixes), 4)
    for ka, kb in itertools.product(pk_prefixes, repeat=2):
        bad = []
        for bo in ((LT, EQ, GT) if ka == kb else (EQ,)):
            a = Obj(kt.qualname, {'value': KeyVal('a', ka)})
            b = Obj(kt.qualname, {'value': KeyVal('b', kb)})
            it = Interp(repo, KeyHooks(bo), max_depth=3)
            fi = repo.func('pytezos.michelson.instructions.compare.compare')
            res = it.run_function(fi, [a, b])
            want = (-1 if spec_rank[ka] < spec_rank[kb] else 1) if ka != kb else spec_lex([bo])
            got = res[0].value if len(res) == 1 and res[0].outcome == 'return' else ('raise', [p.value.cls if p.outcome == 'raise' else vrepr(p.value) for p in res])
            if got != want:
                bad.append({'bytes': bo, 'compare': got, 'spec': want})
        chk.ob('R-ORD', kt.qualname + '.__lt__', not bad, f'{ka} vs {kb}', kt.methods['__lt__'].loc, {'failing': bad},
               what=f'key order {ka} vs {kb}: {bad[:1]} (keys are ordered by curve ed < secp256k1 < p256 < bls, then bytes)')

    # ---- 4 one relation everywhere ------------------------------------------------------------------------------
    chk.set_clause('C03.4')
    nsorted = 0
    audited = {}
    for modname in (f'{T}.set', f'{T}.map', f'{T}.big_map'):
        for fi0 in repo.iter_functions(modname + '.'):
            for fi in repo.with_fresh_callees(fi0):  # ... and the helpers a later refactoring moved the sorting into, wherever they live
                audited.setdefault(fi.qualname, fi)
    for fi in audited.values():
        mi = fi.module
        if True:
            for c in [n for n in ast.walk(fi.node) if isinstance(n, ast.Call)]:
                d = dotted(c.func)
                if d == 'sorted':
                    nsorted += 1
                    keyf = next((k.value for k in c.keywords if k.arg == 'key'), None)
                    rev = next((k for k in c.keywords if k.arg == 'reverse'), None)
                    ok = rev is None
                    if keyf is not None:
                        # entries are (key, value) tuples: only a projection on the entry's key keeps the key relation (decided by applying
                        # the key function to a symbolic pair: lambda x: x[0], itemgetter(0), a named helper ... are the same thing)
                        from ..absint import Env, sort_key_kind
                        _it = Interp(repo, Hooks(), max_depth=3)
                        try:
                            kind = _it.run_paths(lambda i, keyf=keyf, mi=mi: sort_key_kind(i, i.eval(keyf, Env(mi))))
                            kinds = {p.value for p in kind if p.outcome == 'return'}
                        except AnalysisError:
                            kinds = {'unknown'}
                        ok = ok and kinds == {'first'}
                    chk.ob('R-FLOW', fi.qualname, ok, f'sorted site {norm(c)[:60]}', f'{mi.relpath}:{c.lineno}',
                           what='keys are ordered by something other than the key comparator')
                if isinstance(c.func, ast.Attribute) and c.func.attr == 'sort':
                    chk.ob('R-FLOW', fi.qualname, False, f'in-place sort {norm(c)[:60]}', f'{mi.relpath}:{c.lineno}',
                           what='in-place sort of a collection body')
    chk.minimum('sorted() sites in set/map', nsorted, 6)
    # __eq__ implies __hash__ for comparable classes
    noncomparable = set()
    ic = repo.func(f'{MT}.is_comparable')
    for n in ast.walk(ic.node):
        if isinstance(n, ast.List) and all(isinstance(e, ast.Constant) for e in n.elts):
            noncomparable |= {e.value for e in n.elts}
    chk.require(len(noncomparable) >= 10, 'is_comparable list not found')
    nhash = 0
    for q in [MT] + repo.subclasses(MT):
        ci = repo.classes[q]
        prim = ci.keywords.get('prim')
        if prim is None or prim in noncomparable:
            continue
        if '__eq__' in ci.methods:
            nhash += 1
            ok = '__hash__' in ci.methods or prim == 'never'
            chk.ob('R-PAIR', q, ok, '__eq__ with __hash__', ci.loc,
                   what=f'{prim} defines __eq__ without __hash__: values are unhashable, the duplicate test len(set(keys)) raises')
        if '__lt__' in ci.methods and '__eq__' not in ci.methods:
            # inherits equality from a parent with the same notion of value
            pass
        # what __hash__ hashes must be hashable itself: an instance of a class of the package that defines __eq__ without __hash__ is not
        hm = ci.methods.get('__hash__')
        if hm is not None:
            for c in [n for n in ast.walk(hm.node) if isinstance(n, ast.Call) and dotted(n.func) == 'hash' and n.args]:
                arg = c.args[0]
                target = None
                if isinstance(arg, ast.Name) and arg.id in hm.module.assigns and isinstance(hm.module.assigns[arg.id], ast.Call):
                    target = dotted(hm.module.assigns[arg.id].func)
                elif isinstance(arg, ast.Call):
                    target = dotted(arg.func)
                if not target:
                    continue
                kind, obj = repo.lookup(repo.resolve_name(hm.module, target))
                if kind != 'class':
                    continue
                chain = [obj.qualname] + [b for b in repo.mro(obj.qualname) if b in repo.classes]
                eq_at = next((b for b in chain if '__eq__' in repo.classes[b].methods), None)
                hash_at = next((b for b in chain if '__hash__' in repo.classes[b].methods), None)
                unhashable = eq_at is not None and (hash_at is None or chain.index(hash_at) > chain.index(eq_at))
                chk.ob('R-PAIR', q, not unhashable, f'__hash__ hashes an instance of {obj.name}, which is hashable', hm.loc, {'hashed': norm(arg), 'class': obj.qualname},
                       what=f'{prim}.__hash__ computes hash({norm(arg)}), an instance of {obj.name}, which defines __eq__ without __hash__ and is therefore unhashable: '
                            f'a set / map literal with {prim} keys (duplicate test len(set(keys))) raises TypeError')
    chk.minimum('comparable classes defining __eq__', nhash, 7)

    # ---- 5 a value is never equal to an absent component ----------------------------------------------------------------------------------
    # option / or compare their payloads with `==` while one side may be absent (None of `None`, the Undefined placeholder of the other branch
    # of an `or`): the composite clauses above ASSUME that a value then compares unequal.  Discharged here for every comparable class by
    # interpreting its own __eq__ on those operands (directly, and as the reflected operand Python calls for `None == value`).
    chk.set_clause('C03.5')
    nabs = 0
    for q in [MT] + repo.subclasses(MT):
        ci = repo.classes[q]
        prim = ci.keywords.get('prim')
        if prim is None or prim in noncomparable:
            continue
        eqm = repo.find_method(q, '__eq__')
        if eqm is None or eqm.qualname == f'{MT}.__eq__':
            continue
        for label, absent in (('None (the empty option)', None), ('Undefined (the other branch of an or)', undefined)):
            it5 = Interp(repo, _AbsentHooks(), max_depth=3)
            recv = Obj(q, {'value': Sym('value'), 'item': Sym('item'), 'items': Sym('items')})
            res5 = it5.run_paths(lambda i, eqm=eqm, recv=recv, absent=absent: i.call_function(FuncRef(eqm, recv, True), [absent], {}, None, force_inline=True))
            outs = sorted({str(p.value) if p.outcome == 'return' else f'{p.outcome} {vrepr(p.value)[:60]}' for p in res5})
            ok = bool(res5) and all(p.outcome == 'return' and (p.value is False or vrepr(p.value) == 'NotImplemented') for p in res5)
            nabs += 1
            chk.ob('R-GUARD', q, ok, f'{prim}: a value == {label} is False', eqm.loc, {'results': outs},
                   what=f'{prim}.__eq__ answers {outs[:2]} when the other operand is {label}: COMPARE of `Some v` with `None` (or `Left v` with a `Right`) '
                        f'reports 0, and sets / map keys of `option {prim}` lose one of the two')
    chk.minimum('comparable classes x absent operands', nabs, 14)

    # ---- 6 equality of union values: same side and equal payload, whether the placeholder of the empty side is the shared module object or a
    #        copy of it (DUP deep-copies values, so both occur on real stacks)
    chk.set_clause('C03.6')
    ORQ, UDQ = f'{T}.sum.OrType', f'{T}.base.undefined'
    oeq = repo.find_method(ORQ, '__eq__')
    if oeq is None:
        raise AnalysisError('C03: OrType has no __eq__')

    class _Inl(Hooks):
        def inline(self, it, fi):
            return True

    neq = 0
    for copied in (False, True):
        for (sa_, pa), (sb_, pb) in itertools.product([(0, 5), (1, 5), (0, 6)], repeat=2):
            def go(i, sa_=sa_, pa=pa, sb_=sb_, pb=pb, copied=copied):
                def ph():
                    return Obj(UDQ, {}) if copied else i.global_name('Undefined', repo.module(f'{T}.base'))
                mk = lambda side, payload: Obj(ORQ, {'items': (payload, ph()) if side == 0 else (ph(), payload)})
                return i.call_function(FuncRef(oeq, mk(sa_, pa), True), [mk(sb_, pb)], {}, None, force_inline=True)
            res6 = Interp(repo, _Inl(), max_depth=6).run_paths(go)
            want = sa_ == sb_ and pa == pb
            got = [p.value if p.outcome == 'return' else p.outcome for p in res6]
            if not got or not all(isinstance(g, bool) for g in got):
                raise AnalysisError(f'C03: OrType.__eq__ does not reduce to a constant on concrete operands: {[vrepr(g) for g in got]}')
            neq += 1
            name = lambda side, payload: f'{"Left" if side == 0 else "Right"} {payload}'
            chk.ob('R-ORD', oeq.qualname, got == [want], f'{name(sa_, pa)} == {name(sb_, pb)} is {want}' + (' (placeholders copied)' if copied else ''), oeq.loc,
                   {'got': got, 'placeholder': 'a copy (as after DUP)' if copied else 'the shared Undefined'},
                   what=f'OrType.__eq__ answers {got} for {name(sa_, pa)} == {name(sb_, pb)}' + (' when the empty side holds a copy of the placeholder (values are deep-copied by DUP)' if copied else '') +
                        f'; the order demands {want}: COMPARE, set membership, map keys and JOIN_TICKETS on union contents go wrong')
    chk.minimum('union equality cases', neq, 18)


class AddrVal:
    """Abstract base58 address string: kind + optional %entrypoint."""

    def __init__(self, side, kind, ep):
        self.side, self.kind, self.ep = side, kind, ep

    def key(self):
        return ('addr', self.side, self.kind, self.ep)

    def __repr__(self):
        return f'{self.side}:{self.kind}{"%ep" if self.ep else ""}'

    def __deepcopy__(self, memo):
        return self


class AddrHooks(Hooks):
    def __init__(self, preds, addr_outcome, ep_outcome):
        self.preds, self.ao, self.eo = preds, addr_outcome, ep_outcome

    def inline(self, it, fi):
        return fi.module.name != 'pytezos.crypto.encoding'

    def call(self, it, callee, args, kwargs, node):
        if isinstance(callee, FuncRef) and callee.fi is not None and callee.fi.module.name == 'pytezos.crypto.encoding':
            v = args[0]
            nm = callee.fi.name
            if isinstance(v, AddrVal) and nm in self.preds:
                # a string carrying %entrypoint is not a valid base58 value of any kind
                return (v.kind in self.preds[nm]) and not v.ep
            if isinstance(v, AddrPart) and nm in self.preds:
                return v.kind in self.preds[nm]
            if nm == 'is_address' and isinstance(v, (AddrVal, AddrPart)):
                return True
        if isinstance(callee, App) and callee.op == 'attr' and isinstance(callee.args[0], AddrVal):
            v = callee.args[0]
            if callee.args[1] in ('split', 'partition') and args[:1] == ['%']:
                parts = [AddrPart(v.side, v.kind)] + ([EpPart(v.side)] if v.ep else [])
                if callee.args[1] == 'partition':
                    return (parts[0], '%' if v.ep else '', parts[1] if v.ep else '')
                return parts
            if callee.args[1] == 'endswith':
                return False
        return NotImplemented

    def attr(self, it, obj, name, node):
        if isinstance(obj, (AddrVal, AddrPart, EpPart)):
            return App('attr', obj, name)
        return NotImplemented

    def subscript(self, it, obj, idx, node):
        if isinstance(obj, (AddrVal, AddrPart)) and isinstance(idx, slice) and idx.start is None and isinstance(idx.stop, int) and idx.stop <= 3:
            return obj.kind[: idx.stop]
        return NotImplemented

    def order(self, a, b):
        """outcome of string comparison a ? b"""
        def flip(o):
            return {LT: GT, GT: LT, EQ: EQ}[o]
        if isinstance(a, (AddrVal, AddrPart)) and isinstance(b, (AddrVal, AddrPart)):
            if a.kind != b.kind:
                return LT if a.kind < b.kind else GT  # ASCII order of the base58 prefixes
            o = self.ao if a.side == 'a' else flip(self.ao)
            if a.side == b.side:
                o = EQ
            if o != EQ:
                return o
            ea = getattr(a, 'ep', False)
            eb = getattr(b, 'ep', False)
            if isinstance(a, AddrVal) and isinstance(b, AddrVal):
                if ea and eb:
                    return self.eo if a.side == 'a' else flip(self.eo)
                if ea != eb:
                    return GT if ea else LT  # the longer string with equal prefix is greater
            return EQ
        if isinstance(a, EpPart) and isinstance(b, EpPart):
            if a.side == b.side:
                return EQ
            return self.eo if a.side == 'a' else flip(self.eo)
        # an absent entrypoint compared as a string: '' is below every name; the constant 'default' stands for the absent side's entrypoint
        if isinstance(a, EpPart) and isinstance(b, str):
            if b == '':
                return GT
            if b == 'default':
                return self.eo if a.side == 'a' else flip(self.eo)
            return None
        if isinstance(a, str) and isinstance(b, EpPart):
            if a == '':
                return LT
            if a == 'default':
                return self.eo if b.side == 'b' else flip(self.eo)
            return None
        return None

    def compare(self, it, op, a, b, node):
        if isinstance(a, (AddrVal, AddrPart, EpPart)) or isinstance(b, (AddrVal, AddrPart, EpPart)):
            if op in ('is', 'is not', 'in', 'not in'):
                return NotImplemented
            o = self.order(a, b)
            if o is None:
                # tuple keys and mixed comparisons are handled structurally below
                return NotImplemented
            return {'<': o == LT, '>': o == GT, '==': o == EQ, '!=': o != EQ, '<=': o != GT, '>=': o != LT}[op]
        if isinstance(a, tuple) and isinstance(b, tuple) and len(a) == len(b) and op in ('<', '>', '==', '!=', '<=', '>='):
            # Python tuple comparison: lexicographic over components
            for x, y in zip(a, b):
                eq = it.truth(it.compare('==', x, y, node))
                if not eq:
                    if op in ('==', '!='):
                        return op == '!='
                    return it.truth(it.compare('<' if op in ('<', '<=') else '>', x, y, node))
            return op in ('==', '<=', '>=')
        return NotImplemented


class AddrPart:
    def __init__(self, side, kind):
        self.side, self.kind = side, kind

    def key(self):
        return ('addrpart', self.side, self.kind)

    def __repr__(self):
        return f'{self.side}:{self.kind}'


class EpPart:
    def __init__(self, side):
        self.side = side

    def key(self):
        return ('ep', self.side)

    def __repr__(self):
        return f'{self.side}:ep'


class KeyVal:
    def __init__(self, side, kind):
        self.side, self.kind = side, kind

    def key(self):
        return ('keyval', self.side, self.kind)

    def __deepcopy__(self, memo):
        return self


class KeyHooks(Hooks):
    def __init__(self, bytes_outcome):
        self.bo = bytes_outcome

    def inline(self, it, fi):
        return fi.module.name != 'pytezos.crypto.encoding'

    def subscript(self, it, obj, idx, node):
        if isinstance(obj, KeyVal) and isinstance(idx, slice) and idx.start is None and idx.stop == 4:
            return obj.kind
        if isinstance(obj, App) and obj.op == 'raw' and isinstance(idx, slice):
            return App('raw', obj.args[0], 'sliced')
        return NotImplemented

    def attr(self, it, obj, name, node):
        if isinstance(obj, KeyVal):
            return App('attr', obj, name)
        return NotImplemented

    def call(self, it, callee, args, kwargs, node):
        if isinstance(callee, FuncRef) and callee.fi is not None and callee.fi.name == 'base58_decode':
            src = args[0]
            while isinstance(src, App):
                src = src.args[0]
            if isinstance(src, KeyVal):
                return App('raw', src.side)
        if isinstance(callee, App) and callee.op == 'attr' and isinstance(callee.args[0], KeyVal) and callee.args[1] == 'encode':
            return App('encoded', callee.args[0])
        return NotImplemented

    def compare(self, it, op, a, b, node):
        if isinstance(a, App) and isinstance(b, App) and a.op == 'raw' and b.op == 'raw':
            o = self.bo if a.args[0] == 'a' else {LT: GT, GT: LT, EQ: EQ}[self.bo]
            if a.args[0] == b.args[0]:
                o = EQ
            return {'<': o == LT, '>': o == GT, '==': o == EQ, '!=': o != EQ, '<=': o != GT, '>=': o != LT}[op]
        if isinstance(a, KeyVal) and isinstance(b, KeyVal) and op in ('==', '!='):
            eq = a.kind == b.kind and (a.side == b.side or self.bo == EQ)
            return eq if op == '==' else not eq
        return NotImplemented


def controls(chk: Check) -> None:
    if spec_lex([EQ, GT]) != 1 or spec_lex([LT, GT]) != -1 or spec_lex([EQ, EQ]) != 0:
        raise AnalysisError('order oracle broken')
