"""C16 Arithmetic and numeric conversions are exact (structural clauses).

 1 R-TABLE   operand -> result typing of ADD SUB MUL EDIV NEG AND OR XOR NOT (+ LSL LSR ABS ISNAT INT NAT BYTES SUB_MUTEZ):
             every reference row is accepted with the reference result type (bytes overloads included)
 2 failure structure: each instruction, interpreted on abstract operands of every accepted typing, fails exactly for the
             specified causes (mutez overflow, negative deprecated mutez SUB, shift > 256) and returns None exactly where
             specified (EDIV by zero, SUB_MUTEZ negative, ISNAT negative); bounded results are built through from_value;
             the guards of from_value are 'value >= 0' and 'bit_length <= 63'
 3 sign handling of BYTES / INT / NAT: nat is unsigned, int two's complement; no strip of leading zeros on a signed encoding
"""
from __future__ import annotations

import ast
from typing import Any, Dict, List, Optional, Tuple

from ..absint import App, Builtin, ClassRef, ExcVal, FuncRef, Hooks, Interp, Obj, Sym, vrepr
from ..instrmodel import MRE, T, TYPECLS, InstrHooks, prim_of, run_instruction, val
from ..model import AnalysisError, NotConstant, Repo, dotted, norm
from ..report import Check

I = 'pytezos.michelson.instructions'
REF_TYPING: Dict[str, Dict[Tuple[str, ...], str]] = {
    'ADD': {('nat', 'nat'): 'nat', ('nat', 'int'): 'int', ('int', 'nat'): 'int', ('int', 'int'): 'int', ('timestamp', 'int'): 'timestamp',
            ('int', 'timestamp'): 'timestamp', ('mutez', 'mutez'): 'mutez', ('bls12_381_fr', 'bls12_381_fr'): 'bls12_381_fr',
            ('bls12_381_g1', 'bls12_381_g1'): 'bls12_381_g1', ('bls12_381_g2', 'bls12_381_g2'): 'bls12_381_g2'},
    'SUB': {('nat', 'nat'): 'int', ('nat', 'int'): 'int', ('int', 'nat'): 'int', ('int', 'int'): 'int', ('timestamp', 'int'): 'timestamp',
            ('timestamp', 'timestamp'): 'int'},
    'MUL': {('nat', 'nat'): 'nat', ('nat', 'int'): 'int', ('int', 'nat'): 'int', ('int', 'int'): 'int', ('mutez', 'nat'): 'mutez',
            ('nat', 'mutez'): 'mutez', ('bls12_381_g1', 'bls12_381_fr'): 'bls12_381_g1', ('bls12_381_g2', 'bls12_381_fr'): 'bls12_381_g2',
            ('bls12_381_fr', 'bls12_381_fr'): 'bls12_381_fr', ('nat', 'bls12_381_fr'): 'bls12_381_fr', ('int', 'bls12_381_fr'): 'bls12_381_fr',
            ('bls12_381_fr', 'nat'): 'bls12_381_fr', ('bls12_381_fr', 'int'): 'bls12_381_fr'},
    'EDIV': {('nat', 'nat'): 'nat,nat', ('nat', 'int'): 'int,nat', ('int', 'nat'): 'int,nat', ('int', 'int'): 'int,nat',
             ('mutez', 'nat'): 'mutez,mutez', ('mutez', 'mutez'): 'nat,mutez'},
    'NEG': {('nat',): 'int', ('int',): 'int', ('bls12_381_fr',): 'bls12_381_fr', ('bls12_381_g1',): 'bls12_381_g1', ('bls12_381_g2',): 'bls12_381_g2'},
    'AND': {('bool', 'bool'): 'bool', ('nat', 'nat'): 'nat', ('int', 'nat'): 'nat', ('bytes', 'bytes'): 'bytes'},
    'OR': {('bool', 'bool'): 'bool', ('nat', 'nat'): 'nat', ('bytes', 'bytes'): 'bytes'},
    'XOR': {('bool', 'bool'): 'bool', ('nat', 'nat'): 'nat', ('bytes', 'bytes'): 'bytes'},
    'NOT': {('bool',): 'bool', ('nat',): 'int', ('int',): 'int', ('bytes',): 'bytes'},
    'LSL': {('nat', 'nat'): 'nat', ('bytes', 'nat'): 'bytes'},
    'LSR': {('nat', 'nat'): 'nat', ('bytes', 'nat'): 'bytes'},
    'ABS': {('int',): 'nat'},
    'ISNAT': {('int',): 'option nat'},
    'INT': {('nat',): 'int', ('bls12_381_fr',): 'int', ('bytes',): 'int'},
    'NAT': {('bytes',): 'nat'},
    'BYTES': {('nat',): 'bytes', ('int',): 'bytes'},
    'SUB_MUTEZ': {('mutez', 'mutez'): 'option mutez'},
}
# specified failures (cause set) per (prim, operand typing); everything else must be total
REF_FAILS: Dict[Tuple[str, Tuple[str, ...]], set] = {
    ('ADD', ('mutez', 'mutez')): {'overflow'},
    ('MUL', ('mutez', 'nat')): {'overflow'}, ('MUL', ('nat', 'mutez')): {'overflow'},
    ('LSL', ('nat', 'nat')): {'shift>256'}, ('LSR', ('nat', 'nat')): {'shift>256'},
    ('LSL', ('bytes', 'nat')): {'shift>256'}, ('LSR', ('bytes', 'nat')): {'shift>256'},
}
BLS = {'bls12_381_fr', 'bls12_381_g1', 'bls12_381_g2'}


def instr_class(repo: Repo, prim: str) -> str:
    for q, ci in repo.classes.items():
        if q.startswith(I + '.') and ci.keywords.get('prim') == prim and ci.keywords.get('args_len', 0) in (0, None):
            if repo.is_subclass(q, f'{I}.base.MichelsonInstruction'):
                return q
    raise AnalysisError(f'no instruction class for {prim}')


def result_type(repo: Repo, v: Any) -> str:
    if isinstance(v, Obj):
        return prim_of(repo, v.cls) or v.cls
    if isinstance(v, App):
        if v.op == 'OptionType.from_some' and v.args:
            return 'option ' + result_type(repo, v.args[0])
        if v.op == 'OptionType.none' and v.args:
            a = v.args[0]
            if isinstance(a, ClassRef):
                return 'option ' + (prim_of(repo, a.qual) or a.qual)
            if isinstance(a, App) and a.op == 'PairType.create_type':
                kw = [x for x in a.args if isinstance(x, App) and x.op == 'kw' and x.args[0] == 'args']
                if kw:
                    return 'option pair ' + ','.join(prim_of(repo, c.qual) or '?' for c in kw[0].args[1])
            return 'option ?'
        if v.op == 'PairType.from_comb' and v.args and isinstance(v.args[0], list):
            return 'pair ' + ','.join(result_type(repo, x) for x in v.args[0])
        if v.op.endswith('.from_point'):
            return {'BLS12_381_FrType': 'bls12_381_fr', 'BLS12_381_G1Type': 'bls12_381_g1', 'BLS12_381_G2Type': 'bls12_381_g2',
                    'BytesType': 'bytes'}.get(v.op.split('.')[0], v.op)
    return vrepr(v)[:40]


class _EdivHooks(InstrHooks):
    """divmod is Python's floored division: a = q0*b + r0 with r0 of the sign of b.  Comparisons with 0 are decided by the case."""

    def __init__(self, repo, sign_b: int, sign_r0: int):
        super().__init__(repo)
        self.sb, self.sr = sign_b, sign_r0

    def call(self, it, callee, args, kwargs, node):
        if isinstance(callee, Builtin) and callee.name == 'divmod':
            return (Sym('q0'), Sym('r0'))
        if isinstance(callee, Builtin) and callee.name == 'abs' and isinstance(args[0], Sym) and args[0].name == 'b':
            return App('op:Mult', self.sb, args[0])  # |b| = sign(b) * b
        return super().call(it, callee, args, kwargs, node)

    def sign(self, t):
        if isinstance(t, Sym) and t.name == 'b':
            return self.sb
        if isinstance(t, Sym) and t.name == 'r0':
            return self.sr
        if isinstance(t, App) and t.op == 'int' and len(t.args) == 1:
            return self.sign(t.args[0])
        return None

    def compare(self, it, op, a, b, node):
        if op in ('<', '>', '<=', '>=', '==', '!='):
            for x, y, o in ((a, b, op), (b, a, {'<': '>', '>': '<', '<=': '>=', '>=': '<=', '==': '==', '!=': '!='}[op])):
                if isinstance(y, int) and not isinstance(y, bool) and y == 0:
                    s = self.sign(x)
                    if s is not None:
                        return {'<': s < 0, '>': s > 0, '<=': s <= 0, '>=': s >= 0, '==': s == 0, '!=': s != 0}[o]
        return super().compare(it, op, a, b, node) if hasattr(super(), 'compare') else NotImplemented


def _ediv_cases(repo: Repo, chk: Check) -> None:
    from ..groupmodel import lin
    cq = instr_class(repo, 'EDIV')
    fi = repo.find_method(cq, 'execute')
    # feasible cases of Python's divmod for a non-zero divisor, and the Euclidean result (0 <= r < |b|, a = q*b + r) in terms of (q0, r0, b)
    cases = [
        ('positive divisor, remainder zero', 1, 0, {'q0': 1}, {'r0': 1}),
        ('positive divisor, positive remainder', 1, 1, {'q0': 1}, {'r0': 1}),
        ('negative divisor, remainder zero', -1, 0, {'q0': 1}, {'r0': 1}),
        ('negative divisor, negative remainder', -1, -1, {'q0': 1, '#': 1}, {'r0': 1, 'b': -1}),
    ]
    for what, sb, sr, want_q, want_r in cases:
        res = run_instruction(repo, cq, [val('int', 'a'), val('int', 'b'), val('unit', 'rest')], _EdivHooks(repo, sb, sr), wrap=True)
        rets = [p for p in res if p.outcome == 'return']
        got = set()
        for p in rets:
            fv = [e for e in p.events if isinstance(e, tuple) and e[0] == 'from_value']
            if len(fv) >= 2:
                def norm_lin(t):
                    l = lin(t)
                    if l is None:
                        return vrepr(t)
                    d = dict(l[1])
                    if l[0]:
                        d['#'] = l[0]
                    return tuple(sorted(d.items()))
                got.add((norm_lin(fv[-2][2]), norm_lin(fv[-1][2])))
        want = (tuple(sorted(want_q.items())), tuple(sorted(want_r.items())))
        chk.ob('R-GUARD', cq, got == {want}, f'EDIV int int, {what}: quotient and remainder are the Euclidean ones', fi.loc,
               {'quotient_remainder': sorted(map(str, got)), 'reference': str(want), 'paths': len(rets)},
               what=f'EDIV with a {what}: the interpreter computes (q, r) = {sorted(map(str, got))} in terms of Python\'s divmod (q0, r0); '
                    f'the Euclidean division (0 <= r < |b|) is {want}')


def run(repo: Repo, chk: Check) -> None:
    chk.explanation = (
        'Every arithmetic instruction is interpreted on abstract operands for each operand typing of the Michelson reference: the '
        'dispatch either accepts the typing and pushes a value of the reference result type, or the row is missing.  Failures are '
        'derived (not assumed): constructors of nat/mutez values are decided with an interval lemma over the symbolic result, and '
        'the wrapper that turns every exception of a type method into MichelsonRuntimeError is modelled, so a handler that can '
        'never fire is visible.  Numeric results themselves are not decided.'
    )
    chk.assumptions += ['quotient and remainder of EDIV are in range of their result types (numeric, declined)', 'operands on the stack satisfy their type invariants (nat >= 0, 0 <= mutez < 2^63)',
                        'interval lemma: x - y >= 0 on paths that established x >= y; sums/products/shifts of non-negative numbers are non-negative']
    # ---- 1/2 typing rows and failure structure ------------------------------------------------------------------------
    nrows = 0
    for prim, table in REF_TYPING.items():
        cq = instr_class(repo, prim)
        fi = repo.find_method(cq, 'execute')
        for typing, want_res in table.items():
            nrows += 1
            chk.set_clause('C16.1')
            operands = [val(t, 'ab'[i]) for i, t in enumerate(typing)]
            try:
                res = run_instruction(repo, cq, operands + [val('unit', 'rest')], InstrHooks(repo), wrap=True)
            except AnalysisError as e:
                raise AnalysisError(f'{prim} {typing}: {e}')
            label = f'{prim} {" ".join(typing)}'
            rets = [p for p in res if p.outcome == 'return']
            # a typing row that is not in the dispatch table fails on every path with the dispatch assertion
            rejected = bool(res) and not rets and all(any(isinstance(e, tuple) and e[0] == 'fails' for e in p.events) is False for p in res)
            if not rets:
                chk.ob('R-TABLE', cq, False, f'{label}: typing accepted', fi.loc, {'outcomes': sorted({p.value.cls + ':' + str(p.value.args[:1]) for p in res})[:3]},
                       what=f'{label} -> {want_res} is a Michelson typing, the instruction rejects these operand types')
                continue
            got_types = set()
            for p in rets:
                top = p.value['stack'][0] if p.value['stack'] else None
                rt = result_type(repo, top)
                got_types.add(rt)
                # the rest of the stack is untouched
                if [vrepr(x) for x in p.value['stack'][1:]] != ['<UnitType:rest value=$rest>']:
                    got_types.add('stack-damaged:' + str([vrepr(x) for x in p.value['stack']])[:80])
            want_norm = {want_res} if ',' not in want_res else {'option pair ' + want_res}
            if prim == 'EDIV':
                ok = got_types == want_norm
            elif want_res.startswith('option'):
                ok = got_types == {want_res}
            else:
                ok = got_types == {want_res}
            chk.ob('R-TABLE', cq, ok, f'{label}: result type {want_res}', fi.loc, {'result_types': sorted(got_types)},
                   what=f'{label} pushes {sorted(got_types)}, Michelson gives {want_res}')
            # ---- failure causes
            chk.set_clause('C16.2')
            causes = set()
            for p in res:
                if p.outcome == 'raise':
                    f = [e for e in p.events if isinstance(e, tuple) and e[0] == 'fails']
                    if f:
                        causes.add(f[-1][2])
                    elif p.conds and any(k in vrepr(p.conds[-1][0]) for k in ('257', '256')) and '$b' in vrepr(p.conds[-1][0]):
                        causes.add('shift>256')
                    else:
                        causes.add(f'{p.value.cls}:{str(p.value.args[:1])[:40]}')
            want_causes = REF_FAILS.get((prim, typing), set())
            if prim == 'SUB' and typing == ('mutez', 'mutez'):
                want_causes = {'negative'}
            if set(typing) & BLS:
                causes = {c for c in causes if c in ('overflow', 'negative', 'shift>256')}
            chk.ob('R-EXC', cq, causes == want_causes, f'{label}: fails exactly for {sorted(want_causes) or "nothing"}', fi.loc,
                   {'failure_causes': sorted(causes), 'paths': len(res)},
                   what=f'{label} can fail for {sorted(causes)}; Michelson: {sorted(want_causes) or "never fails"}'
                        + (' (a negative difference must give None: the OverflowError handler can never fire because the constructor is wrapped and '
                           'raises MichelsonRuntimeError)' if prim == 'SUB_MUTEZ' else ''))
            # None arms
            if prim in ('EDIV', 'SUB_MUTEZ', 'ISNAT'):
                nones = [p for p in rets if isinstance(p.value['stack'][0], App) and p.value['stack'][0].op == 'OptionType.none']
                somes = [p for p in rets if isinstance(p.value['stack'][0], App) and p.value['stack'][0].op == 'OptionType.from_some']
                guard = {'EDIV': ('==', '$b', 0, True), 'SUB_MUTEZ': ('neg', None, None, None), 'ISNAT': ('>=', '$a', 0, False)}[prim]
                okn = bool(nones) and bool(somes)
                if prim == 'EDIV':
                    okn = okn and all(any(b and vrepr(c) in ('==(0, $b)', '==($b, 0)') for c, b in p.conds) for p in nones) and \
                        all(any((not b) and vrepr(c) in ('==(0, $b)', '==($b, 0)') for c, b in p.conds) for p in somes)
                elif prim == 'ISNAT':
                    okn = okn and all(_accepts_nonneg(p.conds, '$a', False) for p in nones) and all(_accepts_nonneg(p.conds, '$a', True) for p in somes)
                else:
                    okn = okn and all(_lt(p.conds, '$a', '$b', True) for p in nones) and all(_lt(p.conds, '$a', '$b', False) for p in somes)
                chk.ob('R-GUARD', cq, okn, f'{label}: None exactly when {"the divisor is zero" if prim == "EDIV" else "the result would be negative"}', fi.loc,
                       {'none_paths': [p.cond_repr()[:120] for p in nones][:2], 'some_paths': [p.cond_repr()[:120] for p in somes][:2]},
                       what=f'{label}: the None result is missing, unreachable or guarded by the wrong condition')
    chk.minimum('reference typing rows examined', nrows, 60)

    # ---- EDIV: Euclidean correction decided over the sign cases of (divisor, Python remainder) ---------------------------------------
    chk.set_clause('C16.3')
    _ediv_cases(repo, chk)

    # bounded constructors
    chk.set_clause('C16.2')
    for prim, want in (('nat', {'negative'}), ('mutez', {'negative', 'overflow'})):
        cq = TYPECLS[prim]
        fv = repo.find_method(cq, 'from_value')
        it = Interp(repo, _CtorHooks(), max_depth=1)
        res = it.run_function(fv, [Sym('value', 'int')], self_val=ClassRef(cq))
        acc = [p for p in res if p.outcome == 'return']
        rej = [p for p in res if p.outcome == 'raise']
        ok = bool(acc) and all(any(b and vrepr(c) == '>=($value, 0)' for c, b in p.conds) for p in acc)
        if prim == 'mutez':
            ok = ok and all(any((not b) and vrepr(c) == '>(mcall:bit_length($value), 63)' or b and vrepr(c) in ('<=(mcall:bit_length($value), 63)', '<(mcall:bit_length($value), 64)')
                                for c, b in p.conds) for p in acc) and any(p.value.cls == 'OverflowError' for p in rej)
        chk.ob('R-GUARD', fv.qualname, ok and len(rej) == len(want), f'{prim}: accepts exactly 0 <= v{" < 2^63" if prim == "mutez" else ""}', fv.loc,
               {'accepting': [p.cond_repr() for p in acc], 'rejecting': [(p.value.cls, p.cond_repr()) for p in rej]},
               what=f'{prim} values are not bounded by their constructor as specified')
    # ... and the UNBOUNDED numeric types accept every integer: int and timestamp (seconds before the epoch are legal; ADD / SUB on timestamps never fail)
    for prim in ('int', 'timestamp'):
        cq = TYPECLS[prim]
        fv = repo.find_method(cq, 'from_value')
        res = Interp(repo, _CtorHooks(), max_depth=1).run_function(fv, [Sym('value', 'int')], self_val=ClassRef(cq))
        rej = [p for p in res if p.outcome != 'return']
        chk.ob('R-GUARD', fv.qualname, bool(res) and not rej, f'{prim}: every integer is accepted by the constructor', fv.loc,
               {'rejecting': [(p.value.cls if p.outcome == 'raise' else p.outcome, p.cond_repr()) for p in rej]},
               what=f'{prim}.from_value rejects some integers ({[(p.cond_repr()) for p in rej][:2]}): arithmetic whose exact result lies there fails although Michelson defines it')
    # direct construction of bounded numeric values in the instruction package bypasses the guard
    for fi in repo.iter_functions(I + '.'):
        for c in [n for n in ast.walk(fi.node) if isinstance(n, ast.Call)]:
            d = dotted(c.func)
            if d and d in ('NatType', 'MutezType') and repo.resolve_name(fi.module, d) in (TYPECLS['nat'], TYPECLS['mutez']):
                arg = c.args[0] if c.args else None
                safe = isinstance(arg, ast.Call) and dotted(arg.func) in ('len', 'abs')
                chk.ob('R-CONSTRUCT', fi.qualname, safe, f'direct {d}(...) construction', f'{fi.module.relpath}:{c.lineno}', {'call': norm(c)[:80]},
                       what=f'{d} is built without its validating constructor')

    # ---- 3 sign handling ------------------------------------------------------------------------------------------------
    chk.set_clause('C16.3')
    cq = instr_class(repo, 'BYTES')
    fi = repo.find_method(cq, 'execute')
    for t in ('nat', 'int'):
        res = run_instruction(repo, cq, [val(t, 'a')], _BytesHooks(repo))
        signed_flags = set()
        stripped = False
        zero_empty = None
        for p in res:
            for e in p.events:
                if isinstance(e, tuple) and e[0] == 'to_bytes':
                    signed_flags.add(e[1])
                if isinstance(e, tuple) and e[0] == 'strip':
                    stripped = stripped or e[1]
            if p.outcome == 'return':
                top = p.value['stack'][0]
                payload = top.fields.get('value') if isinstance(top, Obj) else None
                is_zero = any(b and vrepr(c) in ('==(0, $a)', '==($a, 0)') for c, b in p.conds)
                if is_zero:
                    zero_empty = (payload == b'')
        want_signed = {t == 'int'}
        chk.ob('R-DISPATCH', cq, signed_flags == want_signed, f'BYTES {t}: encoded {"two\'s complement" if t == "int" else "unsigned"}', fi.loc,
               {'signed_flags': sorted(signed_flags)},
               what=f'BYTES on {t} encodes with signed={sorted(signed_flags)}: nat must be unsigned and int signed (NatType is a subclass of IntType)')
        chk.ob('R-FLOW', cq, not (stripped and True in signed_flags), f'BYTES {t}: no zero-strip of a signed encoding', fi.loc,
               {'stripped': stripped, 'signed': sorted(signed_flags)},
               what=f'leading zero bytes are stripped from a signed big-endian encoding: the sign byte of a positive int with the top bit set is lost (128 -> 0x80 = -128)')
        chk.ob('R-GUARD', cq, zero_empty is True or (t == 'nat' and zero_empty is None and not stripped is False), f'BYTES {t}: zero is the empty byte string', fi.loc,
               {'zero_path_gives_empty': zero_empty}, what='BYTES 0 must be the empty byte string')
    for prim, t, want in (('INT', 'bytes', True), ('NAT', 'bytes', False)):
        cq = instr_class(repo, prim)
        fi = repo.find_method(cq, 'execute')
        res = run_instruction(repo, cq, [val(t, 'a')], InstrHooks(repo))
        flags = set()
        for p in res:
            for e in p.events:
                if isinstance(e, tuple) and e[0] == 'from_value' and isinstance(e[2], App) and e[2].op == 'call:int.from_bytes':
                    a = e[2].args
                    flags.add((a[1] if len(a) > 1 and isinstance(a[1], str) else next((x.args[1] for x in a if isinstance(x, App) and x.op == 'kw' and x.args[0] == 'byteorder'), None),
                               any(isinstance(x, App) and x.op == 'kw' and x.args[0] == 'signed' and x.args[1] is True for x in a)))
        chk.ob('R-DISPATCH', cq, flags == {('big', want)}, f'{prim} bytes: big-endian, {"signed" if want else "unsigned"}', fi.loc, {'found': sorted(map(str, flags))},
               what=f'{prim} on bytes must decode big-endian {"two\'s complement" if want else "unsigned"}')
        # the bytes decoded are the operand's bytes as they are: stripping / slicing / padding them first changes the sign byte or the magnitude
        srcs = []
        for p in res:
            for e in p.events:
                if isinstance(e, tuple) and e[0] == 'from_value' and isinstance(e[2], App) and e[2].op == 'call:int.from_bytes' and e[2].args:
                    srcs.append(e[2].args[0])

        def transformed(x) -> bool:
            if isinstance(x, App):
                if x.op.startswith(('mcall:', 'm:')) or x.op in ('slice', 'cat', 'getitem') or x.op.startswith('op:'):
                    return True
                return any(transformed(a) for a in x.args)
            return False

        chk.ob('R-FLOW', cq, bool(srcs) and not any(transformed(x) for x in srcs), f'{prim} bytes: the operand bytes are decoded untransformed', fi.loc,
               {'decoded_terms': [vrepr(x)[:120] for x in srcs]},
               what=f'{prim} on bytes decodes {[vrepr(x)[:80] for x in srcs][:1]} instead of the operand itself: leading zero (sign) bytes or other parts of the operand are '
                    'dropped before decoding (0x0080 must be 128, not -128)')


def _accepts_nonneg(conds, sym: str, positive: bool) -> bool:
    for c, b in conds:
        s = vrepr(c)
        if s == f'>=({sym}, 0)' and b is positive:
            return True
        if s == f'<({sym}, 0)' and b is (not positive):
            return True
    return False


def _lt(conds, x: str, y: str, want_lt: bool) -> bool:
    for c, b in conds:
        s = vrepr(c)
        if s == f'>=({x}, {y})' and b is (not want_lt):
            return True
        if s == f'<({x}, {y})' and b is want_lt:
            return True
        if s == f'>({y}, {x})' and b is want_lt:
            return True
        if s == f'<=({y}, {x})' and b is (not want_lt):
            return True
    return False


class _CtorHooks(Hooks):
    def call(self, it, callee, args, kwargs, node):
        if isinstance(callee, ClassRef):
            return Obj(callee.qual, {'value': args[0] if args else None})
        return NotImplemented


class _BytesHooks(InstrHooks):
    def call(self, it, callee, args, kwargs, node):
        if isinstance(callee, App) and callee.op == 'attr':
            recv, name = callee.args
            if name == 'to_bytes':
                it.event('to_bytes', kwargs.get('signed', args[2] if len(args) > 2 else False))
                return App('to_bytes', recv, kwargs.get('signed', False))
            if name in ('lstrip', 'strip') and isinstance(recv, App) and recv.op == 'to_bytes':
                it.event('strip', True)
                return App('stripped', recv)
            if name == 'bit_length':
                return App('bit_length', recv)
        return super().call(it, callee, args, kwargs, node)

    def binop(self, it, op, a, b, node):
        return NotImplemented


def controls(chk: Check) -> None:
    from ..instrmodel import rng
    a, b = Sym('a', meta_prim='mutez'), Sym('b', meta_prim='mutez')
    if rng(App('op:Sub', a, b), [])[0] is None or rng(App('op:Sub', a, b), [])[0] >= 0:
        raise AnalysisError('interval lemma control failed (unguarded difference must be possibly negative)')
    if rng(App('op:Sub', a, b), [(App('>=', a, b), True)])[0] != 0:
        raise AnalysisError('interval lemma control failed (guarded difference)')
