"""C20 Tickets are never forged, duplicated, zeroed or merged incorrectly.

 1 TICKET: None exactly for amount 0, otherwise a ticket by the self address with the given content and amount
 2 SPLIT_TICKET / TicketType.split: None when the parts do not sum to the amount or when a part is zero; otherwise two tickets with
   the original ticketer/content and the two amounts (conservation)
 3 JOIN_TICKETS / TicketType.join: Some exactly when ticketer and content agree; the amount is the sum; the result is a value of the
   PARAMETRISED ticket type of its inputs (not the bare TicketType class)
 4 copy discipline: no instruction pushes a popped value twice unless it went through .duplicate(); READ_TICKET pushes the ticket once
   plus a description; is_duplicable is False exactly for types containing `ticket` outside lambda; TicketType forbids copy
"""
from __future__ import annotations

import ast
from typing import Any, Dict, List

from ..absint import App, Builtin, ClassRef, ExcVal, FuncRef, Hooks, Interp, ModRef, Obj, Raised, Sym, vkey, vrepr
from ..instrmodel import MRE, T, TYPECLS, InstrHooks, mk_stack, prim_of, run_instruction, val
from ..model import AnalysisError, Repo, dotted, norm
from ..report import Check

TK = f'{T}.ticket.TicketType'
I = 'pytezos.michelson.instructions'


class TicketHooks(Hooks):
    """TicketType.split / join / create interpreted; constructions of ticket values are recorded with the class used."""

    def __init__(self, repo: Repo, same_ticketer=True, same_item=True):
        self.repo = repo
        self.same_ticketer = same_ticketer
        self.same_item = same_item

    def inline(self, it, fi):
        return fi.cls is not None and fi.cls.qualname == TK and fi.name in ('split', 'join', 'create')

    def call(self, it, callee, args, kwargs, node):
        if isinstance(callee, ClassRef) and self.repo.is_subclass(callee.qual, TK) or isinstance(callee, App) and callee.op in ('ticket-type', 'type-of'):
            names = ['ticketer', 'item', 'amount']
            f = dict(zip(names, args))
            f.update(kwargs)
            how = 'bare class TicketType' if isinstance(callee, ClassRef) else vrepr(callee)
            it.event('new-ticket', how, f)
            return Obj(TK, dict(f, _cls=how))
        if isinstance(callee, ModRef) and callee.name in ('copy.copy', 'copy.deepcopy'):
            return args[0]
        if isinstance(callee, FuncRef) and callee.fi is not None:
            n = callee.fi.name
            if n == 'create_type':
                return App('ticket-type', *[App('kw', k, v) for k, v in sorted(kwargs.items())])
            if n == 'assert_type_equal':
                return None
        if isinstance(callee, App) and callee.op == 'attr' and callee.args[1] == 'get_anon_type':
            return App('anon-type', callee.args[0])
        from ..absint import Builtin
        if isinstance(callee, Builtin) and callee.name == 'type' and len(args) == 1 and isinstance(args[0], Obj) and args[0].cls == TK:
            return App('type-of', args[0].fields.get('_name', 'ticket'))
        return NotImplemented

    def compare(self, it, op, a, b, node):
        if op in ('==', '!=') and isinstance(a, Sym) and isinstance(b, Sym):
            if {a.name, b.name} == {'ticketer_l', 'ticketer_r'}:
                return self.same_ticketer if op == '==' else not self.same_ticketer
            if {a.name, b.name} == {'item_l', 'item_r'}:
                return self.same_item if op == '==' else not self.same_item
        return NotImplemented


def lin_amount(t: Any) -> str:
    from ..groupmodel import lin_repr
    return lin_repr(t)


def run(repo: Repo, chk: Check) -> None:
    chk.explanation = (
        'TicketType.split/join and the TICKET instruction are interpreted on abstract tickets: results, guards (path conditions) and '
        'the class used to build the new ticket values are compared with the specification; amounts are compared as linear forms.  '
        'The copy discipline is a multiplicity rule over what each instruction pushes.  Conservation over whole programs follows '
        'from these per-instruction facts and is not decided by value.'
    )
    cls = repo.cls(TK)
    split, join = cls.methods['split'], cls.methods['join']

    # ---- 2 split --------------------------------------------------------------------------------------------------------
    chk.set_clause('C20.2')

    def tick(name=''):
        return Obj(TK, {'ticketer': Sym('ticketer' + name), 'item': Sym('item' + name), 'amount': Sym('amount' + name, 'int'), '_name': 'ticket' + name})

    res = Interp(repo, TicketHooks(repo), max_depth=3).run_method(split, lambda: (tick(), [Sym('a', 'int'), Sym('b', 'int')], {}))
    somes = [p for p in res if p.outcome == 'return' and p.value is not None]
    nones = [p for p in res if p.outcome == 'return' and p.value is None]

    def cond_has(p, pred):
        return any(pred(vrepr(c), b) for c, b in p.conds)

    sum_guard = all(cond_has(p, lambda s, b: ('op:Add($a, $b)' in s and '$amount' in s) and ((s.startswith('==(') and b) or (s.startswith('not') and not b))) for p in somes)
    zero_guard = all(
        cond_has(p, lambda s, b: ('$a' in s and '0' in s and 'op:Add' not in s) and ((s.startswith('==(') and not b) or (s.startswith('>(') and b) or (s.startswith('<=(') and not b)))
        and cond_has(p, lambda s, b: ('$b' in s and '0' in s and 'op:Add' not in s) and ((s.startswith('==(') and not b) or (s.startswith('>(') and b) or (s.startswith('<=(') and not b)))
        for p in somes)
    chk.ob('R-GUARD', split.qualname, bool(somes) and bool(nones) and sum_guard, 'parts must sum to the amount', split.loc,
           {'some_paths': [p.cond_repr() for p in somes], 'none_paths': [p.cond_repr() for p in nones]},
           what='SPLIT_TICKET can succeed although the two parts do not sum to the ticket amount')
    chk.ob('R-GUARD', split.qualname, bool(somes) and zero_guard, 'no zero part', split.loc, {'some_paths': [p.cond_repr() for p in somes]},
           what='SPLIT_TICKET with a zero part (e.g. (0, amount)) returns Some and produces a ticket of amount zero')
    for p in somes:
        l, r = p.value
        okv = isinstance(l, Obj) and isinstance(r, Obj) and vrepr(l.fields.get('ticketer')) == '$ticketer' == vrepr(r.fields.get('ticketer')) and \
            vrepr(l.fields.get('item')) == '$item' == vrepr(r.fields.get('item')) and vrepr(l.fields.get('amount')) == '$a' and vrepr(r.fields.get('amount')) == '$b'
        chk.ob('R-TEMPLATE', split.qualname, okv, 'parts keep ticketer and content and carry the two amounts', split.loc,
               {'left': vrepr(l), 'right': vrepr(r)}, what='the split tickets do not carry the original ticketer/content with the requested amounts')
        how = sorted({e[1] for e in p.events if isinstance(e, tuple) and e[0] == 'new-ticket'})
        chk.ob('R-CONSTRUCT', split.qualname, how == ["type-of('ticket')"], 'parts are values of the ticket\'s own parametrised type', split.loc, {'constructed_with': how},
               what=f'the parts are built with {how}: the bare class has no content type, so the result has no arguments (as_micheline_expr / type checks break)')

    # ---- 3 join -----------------------------------------------------------------------------------------------------------
    chk.set_clause('C20.3')
    for st, si in ((True, True), (False, True), (True, False), (False, False)):
        res = Interp(repo, TicketHooks(repo, st, si), max_depth=3).run_function(join, [tick('_l'), tick('_r')])
        label = f'ticketer {"same" if st else "different"}, content {"same" if si else "different"}'
        if st and si:
            ok = len(res) == 1 and isinstance(res[0].value, Obj) and vrepr(res[0].value.fields.get('ticketer')) == '$ticketer_l' \
                and vrepr(res[0].value.fields.get('item')) == '$item_l' and lin_amount(res[0].value.fields.get('amount')) == 'amount_l + amount_r'
            chk.ob('R-TEMPLATE', join.qualname, ok, f'{label}: Some with the summed amount', join.loc, {'result': [vrepr(p.value) for p in res]},
                   what='JOIN_TICKETS of matching tickets does not give one ticket with the sum of the amounts')
            how = sorted({e[1] for p in res for e in p.events if isinstance(e, tuple) and e[0] == 'new-ticket'})
            chk.ob('R-CONSTRUCT', join.qualname, how in (["type-of('ticket_l')"], ["type-of('ticket_r')"]), 'joined ticket is a value of the inputs\' parametrised type', join.loc,
                   {'constructed_with': how}, what=f'the joined ticket is built with {how}: a bare TicketType value has no content type (OptionType.from_some fails with "list index out of range")')
        else:
            ok = len(res) == 1 and res[0].outcome == 'return' and res[0].value is None
            chk.ob('R-GUARD', join.qualname, ok, f'{label}: None', join.loc, {'result': [vrepr(p.value) for p in res]}, what=f'JOIN_TICKETS with {label} does not return None')

    # ---- 1 TICKET ------------------------------------------------------------------------------------------------------------
    chk.set_clause('C20.1')
    tq = f'{I}.ticket.TicketInstruction'
    fi = repo.find_method(tq, 'execute')
    res = run_instruction(repo, tq, [Obj(TYPECLS['string'], {'value': Sym('content')}, tag='content'), val('nat', 'amt')], _TicketInstrHooks(repo))
    somes = [p for p in res if p.outcome == 'return' and isinstance(p.value['stack'][0], App) and p.value['stack'][0].op == 'OptionType.from_some']
    nones = [p for p in res if p.outcome == 'return' and isinstance(p.value['stack'][0], App) and p.value['stack'][0].op == 'OptionType.none']
    pos = all(any((vrepr(c) == '>($amt, 0)' and b) or (vrepr(c) in ('==($amt, 0)', '==(0, $amt)') and not b) or (vrepr(c) == '<=($amt, 0)' and not b) for c, b in p.conds) for p in somes)
    chk.ob('R-GUARD', tq, bool(somes) and bool(nones) and pos and len(res) == 2, 'TICKET: None exactly for amount 0', fi.loc,
           {'some': [p.cond_repr() for p in somes], 'none': [p.cond_repr() for p in nones]}, what='TICKET with amount 0 produces a ticket (or a positive amount gives None)')
    for p in somes:
        t = p.value['stack'][0].args[0]
        ok = isinstance(t, App) and t.op == 'TicketType.create' and vrepr(t.args[0]) == 'mcall:get_self_address($context)' and vrepr(t.args[2]) == '$amt' and 'content' in vrepr(t.args[1])
        chk.ob('R-TEMPLATE', tq, ok, 'TICKET: ticketer is the self address, content and amount as given', fi.loc, {'ticket': vrepr(t)[:200]},
               what='TICKET does not create (self address, content, amount)')

    # ---- 4 copy discipline ------------------------------------------------------------------------------------------------------
    chk.set_clause('C20.4')
    ninstr = 0
    skip = set()
    for q, ci in sorted(repo.classes.items()):
        if not (q.startswith(I + '.') and repo.is_subclass(q, f'{I}.base.MichelsonInstruction')) or 'execute' not in ci.methods:
            continue
        if q.startswith(f'{I}.jupyter.') or q.startswith(f'{I}.tzt.') or q.endswith('.base.MichelsonInstruction'):
            continue
        ex = ci.methods['execute']
        # syntactic multiplicity: a name bound from a pop is passed to push more than once without .duplicate()
        popped = set()
        for n in ast.walk(ex.node):
            if isinstance(n, ast.Assign) and isinstance(n.value, ast.Call):
                src = n.value
                while isinstance(src, ast.Call) and dotted(src.func) in ('cast', 'tuple'):
                    src = src.args[-1] if src.args else src
                if isinstance(src, ast.Call) and isinstance(src.func, ast.Attribute) and src.func.attr in ('pop1', 'pop2', 'pop3', 'pop', 'peek'):
                    for t in n.targets:
                        for nm in ast.walk(t):
                            if isinstance(nm, ast.Name):
                                popped.add(nm.id)
        pushes: Dict[str, int] = {}
        in_loop = set()
        for n in ast.walk(ex.node):
            if isinstance(n, ast.Call) and isinstance(n.func, ast.Attribute) and n.func.attr == 'push' and n.args and isinstance(n.args[0], ast.Name):
                pushes[n.args[0].id] = pushes.get(n.args[0].id, 0) + 1
        for loop in [n for n in ast.walk(ex.node) if isinstance(n, (ast.For, ast.While))]:
            for n in ast.walk(loop):
                if isinstance(n, ast.Call) and isinstance(n.func, ast.Attribute) and n.func.attr == 'push' and n.args and isinstance(n.args[0], ast.Name) \
                        and n.args[0].id in popped and not any(isinstance(t, ast.Name) and t.id == n.args[0].id for t in ast.walk(loop.target) if isinstance(loop, ast.For)):
                    in_loop.add(n.args[0].id)
        dup = sorted(v for v, k in pushes.items() if v in popped and k > 1)
        ninstr += 1
        # IF-style instructions push a popped value once per branch: count per branch is handled by the path-based check below
        if dup or in_loop:
            branches_ok = _pushed_once_per_path(repo, q)
            chk.ob('R-FLOW', q, branches_ok, 'a popped value is pushed at most once per path', ex.loc, {'names_pushed_more_than_once_in_text': dup, 'in_loop': sorted(in_loop)},
                   what='a value taken from the stack is pushed back twice without duplicate(): a ticket would be duplicated')
    chk.minimum('instruction classes examined for the copy discipline', ninstr, 100)
    # every way of COPYING a value onto the stack is refused for a non-duplicable value (a ticket, or anything containing one).
    # Decided by interpretation with `is_duplicable()` of the value unknown: DUP / DUP n through the real duplicate() of every class that defines
    # one, and GET through the real get() of map and big_map (the stored value stays in the collection: returning it is a copy).
    _copy_paths(repo, chk)
    isd = repo.func(f'{T}.base.MichelsonType.is_duplicable')
    it = Interp(repo, _DupHooks(), max_depth=4)
    it.max_recursion = 4

    def dupq(prim, args):
        r = it.run_paths(lambda i: i.call(i.getattr(_TypeCls(prim, args), 'is_duplicable', None), [], {}, None))  # dispatched on the class of the prim
        return r[0].value if len(r) == 1 and r[0].outcome == 'return' else None

    cases = {
        'ticket': (('ticket', [('nat', [])]), False), 'nat': (('nat', []), True), 'pair nat (ticket nat)': (('pair', [('nat', []), ('ticket', [('nat', [])])]), False),
        'option (ticket nat)': (('option', [('ticket', [('nat', [])])]), False), 'lambda (ticket nat) unit': (('lambda', [('ticket', [('nat', [])]), ('unit', [])]), True),
        'list nat': (('list', [('nat', [])]), True), 'big_map nat (ticket nat)': (('big_map', [('nat', []), ('ticket', [('nat', [])])]), False),
    }
    for name, ((prim, args), want) in cases.items():
        got = dupq(prim, args)
        chk.ob('R-TABLE', isd.qualname, got is want, f'is_duplicable({name}) == {want}', isd.loc, {'got': got}, what=f'{name} is reported {"" if got else "not "}duplicable')
    cp = cls.methods.get('__copy__')
    chk.ob('R-GUARD', TK, cp is not None and any(isinstance(n, ast.Raise) for n in ast.walk(cp.node)), 'copy() of a ticket is forbidden', cls.loc, what='tickets can be copied with copy()')
    # READ_TICKET: ticket pushed once, plus the description
    rq = f'{I}.ticket.ReadTicketInstruction'
    t0 = Obj(TK, {'ticketer': Sym('tk'), 'item': Sym('it'), 'amount': Sym('am')}, tag='T')
    res = run_instruction(repo, rq, [t0, val('unit', 'rest')], _TicketInstrHooks(repo))
    ok = len(res) == 1 and res[0].outcome == 'return'
    if ok:
        st = res[0].value['stack']
        ok = len(st) == 3 and isinstance(st[0], App) and st[0].op == 'TicketType.to_comb' and st[1] is not None and vrepr(st[1]) == vrepr(t0) and sum(1 for x in st if isinstance(x, Obj) and x.tag == 'T') == 1
    chk.ob('R-FLOW', rq, ok, 'READ_TICKET pushes the description and the same ticket once', repo.find_method(rq, 'execute').loc,
           {'stack': [vrepr(x)[:60] for x in res[0].value['stack']] if res and res[0].outcome == 'return' else None}, what='READ_TICKET duplicates or loses the ticket')

    # ---- memory across calls / inside a ticket (shared rule, sa/statelint.py) --------------------------------------------------------------
    chk.set_clause('C20.M')
    from ..statelint import check_memory
    check_memory(repo, chk, [f'{T}.ticket.', f'{I}.ticket.'],
                 'a ticket answers with an amount it had before it was split or joined: more (or less) is in circulation than was created')


def _pushed_once_per_path(repo: Repo, q: str) -> bool:
    """Path-based: run the instruction on tagged values and count occurrences of each original item on the final stack."""
    items = [Obj(TYPECLS['bool'], {'value': Sym(f'v{i}')}, tag=f'orig{i}') for i in range(4)]
    try:
        res = run_instruction(repo, q, items, _GenericHooks(repo), max_paths=400)
    except AnalysisError:
        return True  # control instructions with opaque bodies are covered by C01; not decidable here
    for p in res:
        if p.outcome != 'return':
            continue
        tags = [x.tag for x in p.value['stack'] if isinstance(x, Obj) and x.tag.startswith('orig')]
        if len(tags) != len(set(tags)):
            return False
    return True


class _GenericHooks(InstrHooks):
    def call(self, it, callee, args, kwargs, node):
        if isinstance(callee, App) and callee.op == 'attr' and callee.args[1] == 'execute':
            return Sym('sub-instruction')
        if isinstance(callee, App) and callee.op == 'attr' and callee.args[1] == 'duplicate':
            return App('duplicate', callee.args[0])
        return super().call(it, callee, args, kwargs, node)


class _TicketInstrHooks(InstrHooks):
    def call(self, it, callee, args, kwargs, node):
        if isinstance(callee, FuncRef) and callee.fi is not None and callee.fi.cls is not None and callee.fi.cls.qualname == TK:
            return App(f'TicketType.{callee.fi.name}', *([callee.self_val] if callee.self_val is not None and not isinstance(callee.self_val, ClassRef) else []), *args,
                       *[App('kw', k, v) for k, v in sorted(kwargs.items())])
        return super().call(it, callee, args, kwargs, node)


class _TypeCls:
    """A parametrised type class for is_duplicable: .prim and .args."""

    def __init__(self, prim, args):
        self.prim = prim
        self.args = [_TypeCls(p, a) for p, a in args]

    def key(self):
        return ('typecls', self.prim, tuple(a.key() for a in self.args))


class _CopyHooks(Hooks):
    """values are objects of a value class; `is_duplicable()` (of the value or of a type argument) is unknown and recorded; copies are terms."""

    def __init__(self, repo: Repo, cls_args=None):
        self.repo = repo
        self.cls_args = cls_args or {}

    def inline(self, it, fi):
        m = fi.module.name
        if m.startswith('pytezos.michelson.instructions.') and fi.name != 'format_stdout':
            return True
        if fi.cls is not None and fi.cls.qualname == 'pytezos.michelson.stack.MichelsonStack':
            return True
        return fi.cls is not None and m.startswith(T) and fi.name in ('duplicate', 'get', '__deepcopy__', '__copy__', '__iter__', 'contains', 'get_some')

    def attr(self, it, obj, name, node):
        if isinstance(obj, ClassRef) and self.repo.is_subclass(obj.qual, 'pytezos.michelson.instructions.base.MichelsonInstruction') and name in self.cls_args:
            return self.cls_args[name]
        if isinstance(obj, Obj) and name == 'args' and 'args' not in obj.fields:
            return [Sym('KeyType'), Sym('ValueType')]
        if isinstance(obj, Obj) and name == 'prim':
            return obj.cls.rsplit('.', 1)[-1]
        return NotImplemented

    def call(self, it, callee, args, kwargs, node):
        if isinstance(callee, FuncRef) and callee.fi is not None:
            n = callee.fi.name
            if n == 'format_stdout':
                return 'stdout'
            if n == 'is_duplicable':
                recv = callee.self_val
                tag = getattr(recv, 'tag', '') or (recv.qual.rsplit('.', 1)[-1] if isinstance(recv, ClassRef) else '')
                if tag in ('other', 'z', 'UnitType', 'NatType'):
                    it.event('is_duplicable-of-another-value', tag)
                    return True  # the neighbours on the stack are plain duplicable values (of other classes than the value under test)
                d = it.choose(2) == 0
                it.event('is_duplicable', vrepr(recv)[:40], d)
                return d
            if n in ('assert_type_equal', 'assert_type_in'):
                return None
            if n in ('forge_script_expr',):
                return Sym('key_hash')
        if isinstance(callee, App) and callee.op == 'attr':
            recv, name = callee.args
            if name == 'is_duplicable':
                d = it.choose(2) == 0
                it.event('is_duplicable', vrepr(recv)[:40], d)
                return d
            if name in ('assert_type_equal', 'assert_type_in'):
                return None
            if name == 'pack':
                return Sym('packed')
            if name == 'get_big_map_value':
                return None
            if name == 'get_int':
                return 2
        if isinstance(callee, ModRef) and callee.name in ('copy.deepcopy', 'copy.copy'):
            return App('copy-of', args[0])
        if isinstance(callee, App) and callee.op == 'type-of':
            return Obj(callee.args[0], dict(kwargs), tag='copy')
        if isinstance(callee, Builtin) and callee.name == 'type' and len(args) == 1 and isinstance(args[0], Obj):
            return App('type-of', args[0].cls)
        if isinstance(callee, ClassRef) and self.repo.is_subclass(callee.qual, f'{T}.base.MichelsonType'):
            return Obj(callee.qual, dict(kwargs), tag='copy')
        return NotImplemented

    def compare(self, it, op, a, b, node):
        if op in ('==', '!=') and isinstance(a, Sym) and isinstance(b, Sym):
            return (a.name == b.name) if op == '==' else (a.name != b.name)
        return NotImplemented


def _copy_paths(repo: Repo, chk: Check) -> None:
    from ..instrmodel import mk_stack
    MT = f'{T}.base.MichelsonType'
    ST = 'pytezos.michelson.stack.MichelsonStack'
    # value classes with their own duplicate(): the generic one and every override
    owners = sorted({q for q in [MT] + repo.subclasses(MT) if 'duplicate' in repo.classes[q].methods})
    chk.minimum('classes defining duplicate()', len(owners), 2)
    ncopy = 0
    for q in owners:
        for iq, cargs, depth in ((f'{I}.stack.DupInstruction', {}, 0), (f'{I}.stack.DupnInstruction', {'args': [Sym('n')]}, 1)):
            ex = repo.find_method(iq, 'execute')
            hooks = _CopyHooks(repo, cargs)
            it = Interp(repo, hooks, max_depth=6)

            def go(i, q=q, ex=ex, iq=iq, depth=depth):
                fields = {'items': [], 'ptr': Sym('ptr'), 'removed_keys': [], 'context': Sym('context')} if q.endswith('BigMapType') else {'value': Sym('payload')}
                v = Obj(q, fields, tag='the-value')
                st = mk_stack(([Obj(f'{T}.core.UnitType', {}, tag='other')] * depth) + [v, Obj(f'{T}.core.NatType', {'value': Sym('z')}, tag='z')])
                i.call_function(FuncRef(ex, ClassRef(iq), True), [st, [], Sym('context')], {}, None, force_inline=True)
                return list(st.fields['items'])

            res = it.run_paths(go)
            bad = []
            for p in res:
                flags = [e[2] for e in p.events if isinstance(e, tuple) and e[0] == 'is_duplicable']
                if p.outcome == 'return' and (not flags or not all(flags)):
                    bad.append('copied' + (' without asking is_duplicable()' if not flags else ' although is_duplicable() is False'))
                if p.outcome == 'raise' and flags and all(flags):
                    bad.append('refused a duplicable value: ' + p.value.cls)
            ncopy += 1
            name = q.rsplit('.', 1)[-1]
            chk.ob('R-FLOW', q + '.duplicate', bool(res) and not bad, f'{"DUP" if depth == 0 else "DUP n"} of a {name} value copies it only when is_duplicable() holds', repo.classes[q].methods['duplicate'].loc,
                   {'paths': len(res), 'problems': sorted(set(bad))},
                   what=f'{"DUP" if depth == 0 else "DUP n"} on a {name} value: {sorted(set(bad))} - a ticket (or a container of tickets) can be duplicated')
    # GET on map / big_map returns a stored value that also stays in the collection
    for q in (f'{T}.map.MapType', f'{T}.big_map.BigMapType'):
        g = repo.find_method(q, 'get')
        hooks = _CopyHooks(repo)
        it = Interp(repo, hooks, max_depth=4)

        def go2(i, q=q, g=g):
            entry = (Sym('k'), Obj(MT, {'value': Sym('stored')}, tag='stored'))
            fields = {'items': [entry], 'ptr': Sym('ptr'), 'removed_keys': [], 'context': Sym('context')}
            return i.call_function(FuncRef(g, Obj(q, fields, tag='coll'), True), [Sym('k')], {}, None, force_inline=True)

        res = it.run_paths(go2)
        bad = []
        for p in res:
            flags = [e[2] for e in p.events if isinstance(e, tuple) and e[0] == 'is_duplicable']
            if p.outcome == 'return' and isinstance(p.value, Obj) and (not flags or not all(flags)):
                bad.append('stored value returned' + (' without asking is_duplicable()' if not flags else ' although the value type is not duplicable'))
        ncopy += 1
        name = q.rsplit('.', 1)[-1]
        chk.ob('R-FLOW', q + '.get', bool(res) and not bad, f'GET on a {name} hands out a stored value only when the value type is duplicable', g.loc,
               {'paths': len(res), 'problems': sorted(set(bad))},
               what=f'{name}.get (GET): {sorted(set(bad))} - a ticket stored in the collection is copied onto the stack and stays in the collection (GET_AND_UPDATE is the only way out)')
    chk.minimum('copy paths examined', ncopy, 6)


class _DupHooks(Hooks):
    def attr(self, it, obj, name, node):
        if isinstance(obj, _TypeCls):
            if name == 'prim':
                return obj.prim
            if name == 'args':
                return obj.args
            if name == 'is_duplicable':
                # the method of the class registered for that prim (a type class may override the generic rule)
                base = f'{T}.base.MichelsonType'
                q = next((c for c in [base] + it.repo.subclasses(base) if it.repo.classes[c].keywords.get('prim') == obj.prim), base)
                fi = it.repo.find_method(q, 'is_duplicable') or it.repo.func(f'{base}.is_duplicable')
                return FuncRef(fi, obj, True)
        return NotImplemented


def controls(chk: Check) -> None:
    pass
