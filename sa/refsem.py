"""The checker's own reference semantics of the structural Michelson instructions (oracle for C01 / C02 level 2).

Written from the Michelson reference, independent of the repository.  A value is a pair (shape, type):
  shape  ('leaf', name) | ('Pair', a, b) | ('Left', x) | ('Right', x) | ('Some', x) | ('None',) | ('List', x0, x1, ...) | ('Map', (k, v), ...)
         | ('Lambda', body-name)
  type   ('nat',) | ('pair', ta, tb) | ('or', ta, tb) | ('option', t) | ('list', t) | ('map', tk, tv) | ('lambda', ta, tb)
Stacks are lists, top first.  Code blocks are `RBody`s with a declared effect; `decide` resolves symbolic booleans (a list of choices consumed
in order), so one call yields one outcome; `outcomes` enumerates all choice sequences up to a bound.
"""
from __future__ import annotations

from typing import Any, Callable, Dict, List, Optional, Tuple

V = Tuple[Any, Any]


class RefFail(Exception):
    def __init__(self, value: V):
        self.value = value


class RefStuck(Exception):
    """The reference semantics is undefined here (ill-typed input)."""


class NeedChoice(Exception):
    pass


class RBody:
    def __init__(self, name: str, pops: int, pushes: List[Any], script: Optional[List[List[V]]] = None):
        self.name, self.pops, self.pushes, self.script = name, pops, pushes, script


class Run:
    def __init__(self, choices: List[bool]):
        self.choices = list(choices)
        self.used: List[Tuple[str, bool]] = []
        self.trace: List[Tuple[str, Tuple[Any, ...]]] = []
        self.serial = 0
        self.calls: Dict[str, int] = {}

    def decide(self, cond: V) -> bool:
        if cond[0][0] != 'leaf':
            raise RefStuck(f'boolean expected, got {cond}')
        if not self.choices:
            raise NeedChoice()
        b = self.choices.pop(0)
        self.used.append((cond[0][1], b))
        return b

    def body(self, b: RBody, stack: List[V]) -> List[V]:
        if len(stack) < b.pops:
            raise RefStuck('stack too short for the code block')
        popped, rest = stack[:b.pops], stack[b.pops:]
        self.serial += 1
        k = self.calls.get(b.name, 0)
        self.calls[b.name] = k + 1
        self.trace.append((b.name, tuple(p[0] for p in popped)))
        if b.script is not None:
            outs = list(b.script[k])
        else:
            outs = [fresh(ty, f'{b.name}.out{i}({self.serial})') for i, ty in enumerate(b.pushes)]
        return outs + rest


def fresh(ty: Any, name: str) -> V:
    if ty[0] == 'pair':
        a, b = fresh(ty[1], f'part({name}, 0)'), fresh(ty[2], f'part({name}, 1)')
        return (('Pair', a[0], b[0]), ty)
    return (('leaf', name), ty)


def pair(a: V, b: V) -> V:
    return (('Pair', a[0], b[0]), ('pair', a[1], b[1]))


def unpair(p: V) -> Tuple[V, V]:
    if p[0][0] != 'Pair' or p[1][0] != 'pair':
        raise RefStuck(f'pair expected, got {p}')
    return (p[0][1], p[1][1]), (p[0][2], p[1][2])


def get_n(n: int, v: V) -> V:
    if n == 0:
        return v
    a, b = unpair(v)
    return a if n == 1 else get_n(n - 2, b)


def update_n(n: int, new: V, v: V) -> V:
    if n == 0:
        return new
    a, b = unpair(v)
    return pair(new, b) if n == 1 else pair(a, update_n(n - 2, new, b))


def step(r: Run, prim: str, args: List[Any], s: List[V]) -> List[V]:
    """One instruction of the reference semantics."""
    def need(k: int):
        if len(s) < k:
            raise RefStuck(f'{prim}: stack too short')

    n = args[0] if args and isinstance(args[0], int) else None
    if prim == 'DROP':
        k = 1 if n is None else n
        need(k)
        return s[k:]
    if prim == 'DUP':
        k = 1 if n is None else n
        if k < 1:
            raise RefStuck('DUP 0')
        need(k)
        return [s[k - 1]] + s
    if prim == 'SWAP':
        need(2)
        return [s[1], s[0]] + s[2:]
    if prim == 'DIG':
        need(n + 1)
        return [s[n]] + s[:n] + s[n + 1:]
    if prim == 'DUG':
        need(n + 1)
        return s[1:n + 1] + [s[0]] + s[n + 1:]
    if prim in ('CAST', 'RENAME'):
        return s
    if prim == 'PAIR' and n is None:
        need(2)
        return [pair(s[0], s[1])] + s[2:]
    if prim == 'PAIR':
        if n < 2:
            raise RefStuck('PAIR n < 2')
        need(n)
        acc = s[n - 1]
        for x in reversed(s[:n - 1]):
            acc = pair(x, acc)
        return [acc] + s[n:]
    if prim == 'UNPAIR' and n is None:
        need(1)
        a, b = unpair(s[0])
        return [a, b] + s[1:]
    if prim == 'UNPAIR':
        if n < 2:
            raise RefStuck('UNPAIR n < 2')
        need(1)
        out, cur = [], s[0]
        for _ in range(n - 1):
            a, cur = unpair(cur)
            out.append(a)
        return out + [cur] + s[1:]
    if prim == 'CAR':
        need(1)
        return [unpair(s[0])[0]] + s[1:]
    if prim == 'CDR':
        need(1)
        return [unpair(s[0])[1]] + s[1:]
    if prim == 'GET' and n is not None:
        need(1)
        return [get_n(n, s[0])] + s[1:]
    if prim == 'UPDATE' and n is not None:
        need(2)
        return [update_n(n, s[0], s[1])] + s[2:]
    if prim == 'LEFT':
        need(1)
        return [(('Left', s[0][0]), ('or', s[0][1], args[0]))] + s[1:]
    if prim == 'RIGHT':
        need(1)
        return [(('Right', s[0][0]), ('or', args[0], s[0][1]))] + s[1:]
    if prim == 'SOME':
        need(1)
        return [(('Some', s[0][0]), ('option', s[0][1]))] + s[1:]
    if prim == 'NONE':
        return [(('None',), ('option', args[0]))] + s
    if prim == 'NIL':
        return [(('List',), ('list', args[0]))] + s
    if prim == 'CONS':
        need(2)
        if s[1][0][0] != 'List':
            raise RefStuck('CONS on a non-list')
        return [(('List', s[0][0]) + tuple(s[1][0][1:]), s[1][1])] + s[2:]
    if prim == 'UNIT':
        return [(('leaf', 'Unit'), ('unit',))] + s
    if prim == 'FAILWITH':
        need(1)
        raise RefFail(s[0])
    if prim == 'IF':
        need(1)
        return r.body(args[0] if r.decide(s[0]) else args[1], s[1:])
    if prim == 'IF_NONE':
        need(1)
        if s[0][0][0] == 'None':
            return r.body(args[0], s[1:])
        if s[0][0][0] == 'Some':
            return r.body(args[1], [(s[0][0][1], s[0][1][1])] + s[1:])
        raise RefStuck('IF_NONE on a non-option')
    if prim == 'IF_LEFT':
        need(1)
        if s[0][0][0] == 'Left':
            return r.body(args[0], [(s[0][0][1], s[0][1][1])] + s[1:])
        if s[0][0][0] == 'Right':
            return r.body(args[1], [(s[0][0][1], s[0][1][2])] + s[1:])
        raise RefStuck('IF_LEFT on a non-union')
    if prim == 'IF_CONS':
        need(1)
        if s[0][0][0] != 'List':
            raise RefStuck('IF_CONS on a non-list')
        items = s[0][0][1:]
        if items:
            return r.body(args[0], [(items[0], s[0][1][1]), (('List',) + tuple(items[1:]), s[0][1])] + s[1:])
        return r.body(args[1], s[1:])
    if prim == 'LOOP':
        cur = s
        while True:
            if not cur:
                raise RefStuck('LOOP: empty stack')
            if not r.decide(cur[0]):
                return cur[1:]
            cur = r.body(args[0], cur[1:])
    if prim == 'LOOP_LEFT':
        cur = s
        while True:
            if not cur:
                raise RefStuck('LOOP_LEFT: empty stack')
            top = cur[0]
            if top[0][0] == 'Left':
                cur = r.body(args[0], [(top[0][1], top[1][1])] + cur[1:])
            elif top[0][0] == 'Right':
                return [(top[0][1], top[1][2])] + cur[1:]
            else:
                raise RefStuck('LOOP_LEFT on a non-union')
    if prim == 'ITER':
        need(1)
        cur = s[1:]
        for x in elements(s[0]):
            cur = r.body(args[0], [x] + cur)
        return cur
    if prim == 'MAP':
        need(1)
        cur = s[1:]
        coll = s[0]
        outs: List[V] = []
        for x in elements(coll):
            cur = r.body(args[0], [x] + cur)
            outs.append(cur[0])
            cur = cur[1:]
        body_out = args[0].pushes[0] if args[0].script is None else (args[0].script[0][0][1])
        if coll[0][0] == 'List':
            return [(('List',) + tuple(o[0] for o in outs), ('list', body_out))] + cur
        if coll[0][0] == 'Map':
            return [(('Map',) + tuple((kv[0], o[0]) for kv, o in zip(coll[0][1:], outs)), ('map', coll[1][1], body_out))] + cur
        raise RefStuck('MAP on a non-collection')
    if prim == 'DIP':
        k, body = (1, args[0]) if len(args) == 1 else (args[0], args[1])
        need(k)
        return s[:k] + r.body(body, s[k:])
    if prim == 'EXEC':
        need(2)
        if s[1][0][0] != 'Lambda':
            raise RefStuck('EXEC on a non-lambda')
        res = r.body(s[1][0][1], [s[0]])
        if len(res) != 1:
            raise RefStuck('lambda body must leave one value')
        return res + s[2:]
    raise RefStuck(f'no reference semantics for {prim}')


def elements(coll: V) -> List[V]:
    if coll[0][0] == 'List':
        return [(x, coll[1][1]) for x in coll[0][1:]]
    if coll[0][0] == 'Map':
        return [(('Pair', k, v), ('pair', coll[1][1], coll[1][2])) for k, v in coll[0][1:]]
    if coll[0][0] == 'Set':
        return [(x, coll[1][1]) for x in coll[0][1:]]
    raise RefStuck('not a collection')


def outcomes(prim: str, args: List[Any], stack: List[V], max_choices: int = 3) -> List[Dict[str, Any]]:
    """All outcomes of one instruction for every sequence of boolean decisions of length <= max_choices."""
    out: List[Dict[str, Any]] = []
    work: List[List[bool]] = [[]]
    while work:
        ch = work.pop(0)
        r = Run(ch)
        try:
            res = step(r, prim, args, list(stack))
            out.append({'kind': 'stack', 'stack': res, 'decisions': r.used, 'trace': r.trace})
        except RefFail as f:
            out.append({'kind': 'fail', 'value': f.value, 'decisions': r.used, 'trace': r.trace})
        except NeedChoice:
            if len(ch) < max_choices:
                work.append(ch + [True])
                work.append(ch + [False])
    return out
