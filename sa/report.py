"""Verdict protocol, obligations, evidence writer, known-findings reader."""
from __future__ import annotations

import json
import os
import re
import sys
import time
from dataclasses import dataclass, field
from typing import Any, Dict, List, Optional

from .model import AnalysisError

VERIF = os.environ.get('SA_VERIF', os.path.dirname(os.path.dirname(os.path.abspath(__file__))))
KNOWN_FILE = os.path.join(VERIF, 'known_findings.json')


@dataclass
class Obligation:
    rule: str  # R-TABLE, R-PATH, ...
    construct: str  # qualified construct
    ok: bool
    detail: str = ''  # normalised detail, part of the key for failures
    loc: str = ''  # file:line (for the report only)
    facts: Any = None
    clause: str = ''  # e.g. C05.1
    info: bool = False  # informational: not counted as an obligation
    what: str = ''  # human description of the failure

    @property
    def key(self) -> str:
        d = re.sub(r'\s+', ' ', self.detail).strip()
        return f'{self.rule} {self.construct} {d}'.strip()

    def to_json(self) -> Dict[str, Any]:
        return {
            'clause': self.clause,
            'rule': self.rule,
            'construct': self.construct,
            'detail': self.detail,
            'loc': self.loc,
            'verdict': 'info' if self.info else ('ok' if self.ok else 'FAIL'),
            'facts': self.facts,
            **({'what': self.what} if self.what else {}),
        }


class Check:
    def __init__(self, pid: str, tier: str = 'quick', level: str = 'other'):
        self.pid = pid
        self.tier = tier
        self.level = level
        self.obs: List[Obligation] = []
        self.t0 = time.time()
        self.explanation = ''
        self.assumptions: List[str] = []
        self.trusted_base: List[str] = [
            'CPython ast',
            'the /verif/sa engine (model, CFG, abstract interpreter)',
            'reference tables under /verif/sa/reference (transcribed offline)',
        ]
        self.analysed: Dict[str, Any] = {}
        self.clause = ''
        self.exhaustive: Optional[bool] = None
        self.extra: Dict[str, Any] = {}
        self.minimums: List[tuple] = []

    # -- recording -------------------------------------------------------------
    def set_clause(self, clause: str) -> None:
        self.clause = clause

    def ob(self, rule: str, construct: str, ok: bool, detail: str = '', loc: str = '', facts: Any = None, what: str = '') -> bool:
        self.obs.append(Obligation(rule, construct, bool(ok), detail, loc, facts, self.clause, False, what))
        return bool(ok)

    def info(self, rule: str, construct: str, detail: str = '', loc: str = '', facts: Any = None) -> None:
        self.obs.append(Obligation(rule, construct, True, detail, loc, facts, self.clause, True))

    def require(self, cond: Any, why: str) -> None:
        if not cond:
            raise AnalysisError(why)

    def minimum(self, what: str, got: int, need: int) -> None:
        self.minimums.append((what, got, need))
        if got < need:
            raise AnalysisError(f'instance count below the hand-confirmed minimum: {what}: {got} < {need}')

    def unlisted_failures(self) -> List[Any]:
        known = {k['key'] for k in load_known() if k.get('property') == self.pid}
        return [o for o in self.obs if not o.info and not o.ok and o.key not in known]

    def note(self, key: str, value: Any) -> None:
        self.analysed[key] = value

    # -- finishing -------------------------------------------------------------
    def finish(self) -> int:
        known = load_known()
        mine = [k for k in known if k.get('property') == self.pid and k.get('status', 'known') == 'known']
        known_keys = {k['key']: k for k in mine}
        real = [o for o in self.obs if not o.info]
        fails = [o for o in real if not o.ok]
        seen = {}
        for o in fails:
            seen.setdefault(o.key, o)
        unlisted = [o for k, o in seen.items() if k not in known_keys]
        listed = [o for k, o in seen.items() if k in known_keys]
        out_dir = os.path.join(VERIF, 'out', self.pid)
        lines = []
        for o in listed:
            lines.append(f'KNOWN-FINDING: property={self.pid} {o.key} :: {known_keys[o.key].get("what", o.what)}')
        rc = 0
        if unlisted:
            os.makedirs(out_dir, exist_ok=True)
            for i, o in enumerate(unlisted):
                path = os.path.join(out_dir, f'{i}.json')
                with open(path, 'w') as f:
                    json.dump({'property': self.pid, 'key': o.key, **o.to_json()}, f, indent=1, default=str)
                lines.append(f'VIOLATION property={self.pid} replay={path}')
                lines.append(f'  {o.loc} {o.rule} {o.construct} {o.detail} :: {o.what}')
            rc = 1
        self._write_evidence(real, fails, listed, unlisted)
        if rc == 0:
            lines.append(
                f'OK property={self.pid} obligations={len(real)} discharged={len(real) - len(fails)} '
                f'known_findings={len(listed)} tier={self.tier}'
            )
        print('\n'.join(lines))
        return rc

    def _write_evidence(self, real, fails, listed, unlisted) -> None:
        constructs = {(o.rule, o.construct) for o in real if o.facts not in (None, [], {}, '') or o.detail}
        samples = []
        seen_rules = set()
        for o in real:
            if (o.clause, o.rule) not in seen_rules:
                seen_rules.add((o.clause, o.rule))
                samples.append(o.to_json())
        for o in fails[:20]:
            j = o.to_json()
            if j not in samples:
                samples.append(j)
        samples = samples[:60]
        by_clause: Dict[str, Dict[str, int]] = {}
        for o in real:
            c = by_clause.setdefault(o.clause or '-', {'obligations': 0, 'discharged': 0})
            c['obligations'] += 1
            c['discharged'] += 1 if o.ok else 0
        coverage: Dict[str, Any] = {
            'explanation': self.explanation or f'static analysis of property {self.pid}',
            'obligations': len(real),
            'discharged': len(real) - len(fails),
            'evaluations': max(len(real), 1),
            'distinct_nontrivial': len(constructs),
            'rule': 'one obligation per rule instance enumerated from the source (table row, dispatch case, path, call site, '
            'abstract case); distinct = distinct (rule, construct) pairs; non-trivial = the instance carries extracted facts '
            '(a non-empty guard set, table row, path or resolved call)',
            'samples': samples or [{'note': 'no obligation'}],
            'checker_cmd': f'/venv/bin/python -m sa check {self.pid} --tier {self.tier}',
            'trusted_base': self.trusted_base,
            'by_clause': by_clause,
            'analysed': self.analysed,
            'instance_minimums': [{'what': w, 'found': g, 'minimum': n} for w, g, n in self.minimums],
            'known_findings_reported': [o.key for o in listed],
            'informational': [o.to_json() for o in self.obs if o.info][:40],
        }
        if self.exhaustive is not None:
            coverage['exhaustive'] = self.exhaustive
        coverage.update(self.extra)
        level = self.level
        if level == 'proof' and fails:
            # a proof-level claim needs every obligation discharged; say what this run really was
            level = 'other'
        ev = {
            'property_id': self.pid,
            'tier': self.tier,
            'seed': int(os.environ.get('VERIF_SEED', '0') or 0),
            'level': level,
            'coverage': coverage,
            'assumptions': self.assumptions,
            'wall_s': round(time.time() - self.t0, 3),
            'violations': len(unlisted),
        }
        os.makedirs(os.path.join(VERIF, 'evidence'), exist_ok=True)
        path = os.path.join(VERIF, 'evidence', f'{self.pid}.json')
        tmp = path + '.tmp'
        with open(tmp, 'w') as f:
            json.dump(ev, f, indent=1, default=str)
        os.replace(tmp, path)


def load_known() -> List[Dict[str, Any]]:
    if not os.path.exists(KNOWN_FILE):
        return []
    with open(KNOWN_FILE) as f:
        data = json.load(f)
    return data.get('findings', [])


def analysis_error(pid: str, why: str) -> int:
    print(f'ANALYSIS-ERROR property={pid} {why}')
    sys.stdout.flush()
    return 2
