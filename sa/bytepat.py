"""Byte-pattern domain: byte strings of known length made of constant bytes and free bytes.

A `Pat` is immutable; facts learnt about free bytes on the current path live in a `Store`
(reset per path).  startswith / endswith / equality are decided exactly when the constant
parts decide them and otherwise fork on the conjunction of byte equalities needed.
"""
from __future__ import annotations

from typing import Any, Dict, FrozenSet, List, Optional, Tuple

from .absint import App, Builtin, FuncRef, Hooks, Interp, ModRef, Raised, ExcVal, Sym, vrepr


class Store:
    def __init__(self):
        self.known: Dict[Tuple[str, int], int] = {}
        self.neg: List[FrozenSet[Tuple[Tuple[str, int], int]]] = []

    def describe(self) -> str:
        k = ', '.join(f'{n}[{i}]=={v:#04x}' for (n, i), v in sorted(self.known.items()))
        ng = ', '.join('not(' + ' & '.join(f'{n}[{i}]=={v:#04x}' for (n, i), v in sorted(s)) + ')' for s in self.neg)
        return '; '.join(x for x in (k, ng) if x)


class Pat:
    """cells: tuple of int (constant byte) or (name, index) (free byte)."""

    __slots__ = ('cells',)

    def __init__(self, cells):
        self.cells = tuple(cells)

    @staticmethod
    def const(b: bytes) -> 'Pat':
        return Pat(b)

    @staticmethod
    def free(name: str, n: int) -> 'Pat':
        return Pat((name, i) for i in range(n))

    def __len__(self):
        return len(self.cells)

    def __add__(self, other):
        if isinstance(other, (bytes, bytearray)):
            return Pat(self.cells + tuple(other))
        if isinstance(other, Pat):
            return Pat(self.cells + other.cells)
        return NotImplemented

    def __radd__(self, other):
        if isinstance(other, (bytes, bytearray)):
            return Pat(tuple(other) + self.cells)
        return NotImplemented

    def slice(self, s: slice) -> 'Pat':
        return Pat(self.cells[s])

    def key(self):
        return ('pat', self.cells)

    def __hash__(self):
        return hash(self.key())

    def __eq__(self, other):
        return isinstance(other, Pat) and other.cells == self.cells

    def describe(self, store: Optional[Store] = None) -> str:
        out: List[str] = []
        run: Optional[Tuple[str, int, int]] = None
        for c in self.cells:
            if isinstance(c, tuple) and store is not None and c in store.known:
                c = store.known[c]
            if isinstance(c, int):
                if run:
                    out.append(f'{run[0]}[{run[1]}:{run[2]}]')
                    run = None
                out.append(f'{c:02x}')
            else:
                if run and run[0] == c[0] and run[2] == c[1]:
                    run = (run[0], run[1], c[1] + 1)
                else:
                    if run:
                        out.append(f'{run[0]}[{run[1]}:{run[2]}]')
                    run = (c[0], c[1], c[1] + 1)
        if run:
            out.append(f'{run[0]}[{run[1]}:{run[2]}]')
        return ' '.join(out) if out else '<empty>'

    __repr__ = lambda self: f'Pat<{self.describe()}>'  # noqa: E731

    def is_whole_free(self, name: str, n: int) -> bool:
        return self.cells == tuple((name, i) for i in range(n))

    def match(self, const: bytes, at: int, store: Store):
        """Compare const against cells[at:at+len(const)].  -> True | False | dict(need)."""
        if at < 0 or at + len(const) > len(self.cells):
            return False
        need: Dict[Tuple[str, int], int] = {}
        for i, b in enumerate(const):
            c = self.cells[at + i]
            if isinstance(c, tuple):
                if c in store.known:
                    c = store.known[c]
                elif c in need:
                    c = need[c]
                else:
                    need[c] = b
                    continue
            if c != b:
                return False
        if not need:
            return True
        facts = set(store.known.items()) | set(need.items())
        for ng in store.neg:
            if ng <= facts:
                return False
        return need


class PatHooks(Hooks):
    """Mix-in giving Pat values their bytes behaviour inside the interpreter."""

    def __init__(self):
        self.store = Store()

    def reset(self, it):
        self.store = Store()

    # -- helpers
    def decide(self, it: Interp, res) -> bool:
        if res is True or res is False:
            return res
        need = res
        if it.choose(2) == 0:
            self.store.known.update(need)
            it.conds.append((App('bytes-eq', tuple(sorted(need.items()))), True))
            return True
        self.store.neg.append(frozenset(need.items()))
        it.conds.append((App('bytes-eq', tuple(sorted(need.items()))), False))
        return False

    def attr(self, it, obj, name, node):
        if isinstance(obj, Pat):
            return App('patmethod', obj, name)
        return NotImplemented

    def pat_call(self, it, callee, args, kwargs, node):
        if isinstance(callee, App) and callee.op == 'patmethod':
            pat, name = callee.args
            if name == 'startswith' and len(args) == 1 and isinstance(args[0], bytes):
                return self.decide(it, pat.match(args[0], 0, self.store))
            if name == 'endswith' and len(args) == 1 and isinstance(args[0], bytes):
                return self.decide(it, pat.match(args[0], len(pat) - len(args[0]), self.store))
            if name == 'hex' and not args:
                return App('hex', pat)
            if name == 'decode':
                return App('decode', pat)
            return App('mcall:' + name, pat, *args)
        if isinstance(callee, Builtin) and callee.name == 'len' and len(args) == 1 and isinstance(args[0], Pat):
            return len(args[0])
        if isinstance(callee, Builtin) and callee.name == 'bytes' and len(args) == 1 and isinstance(args[0], Pat):
            return args[0]
        return NotImplemented

    def call(self, it, callee, args, kwargs, node):
        return self.pat_call(it, callee, args, kwargs, node)

    def binop(self, it, op, a, b, node):
        if op == 'Add' and (isinstance(a, Pat) or isinstance(b, Pat)):
            if isinstance(a, (Pat, bytes)) and isinstance(b, (Pat, bytes)):
                return a + b
        return NotImplemented

    def subscript(self, it, obj, idx, node):
        if isinstance(obj, Pat):
            if isinstance(idx, slice):
                if all(p is None or isinstance(p, int) for p in (idx.start, idx.stop, idx.step)):
                    return obj.slice(idx)
                return App('slice', obj, idx.start, idx.stop)
            if isinstance(idx, int):
                try:
                    c = obj.cells[idx]
                except IndexError:
                    raise Raised(ExcVal('IndexError'))
                if isinstance(c, tuple):
                    c = self.store.known.get(c, None) if c in self.store.known else Sym(f'{c[0]}[{c[1]}]', 'int')
                return c
        if isinstance(obj, dict) and isinstance(idx, Pat):
            for k, v in obj.items():
                if isinstance(k, bytes) and len(k) == len(idx):
                    if self.decide(it, idx.match(k, 0, self.store)):
                        return v
            raise Raised(ExcVal('KeyError', (idx,)))
        return NotImplemented

    def compare(self, it, op, a, b, node):
        if op in ('==', '!=') and (isinstance(a, Pat) or isinstance(b, Pat)):
            p, c = (a, b) if isinstance(a, Pat) else (b, a)
            if isinstance(c, bytes):
                r = False if len(c) != len(p) else self.decide(it, p.match(c, 0, self.store))
                return r if op == '==' else not r
            if isinstance(c, Pat):
                r = p.cells == c.cells
                return r if op == '==' else not r
        if op in ('in', 'not in') and isinstance(a, Pat) and isinstance(b, (dict, list, tuple, set, frozenset)):
            found = False
            for k in (b.keys() if isinstance(b, dict) else b):
                if isinstance(k, bytes) and len(k) == len(a) and self.decide(it, a.match(k, 0, self.store)):
                    found = True
                    break
            return found if op == 'in' else not found
        return NotImplemented
