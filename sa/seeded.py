"""Runs the checks on the seeded changes kept under /verif/seeded/<property>/<name>/ (written by independent sub-agents).

Each seeded change is a `patch.diff` against /repo.  It is applied to a scratch copy of the current tree (never to /repo itself), the check
of its property - and any further property named in meta.json["also"] - is run there with a scratch output directory, and the outcome is
stored in `result.txt` next to the patch.  Exit 1 if a seeded change is not reported by any of its checks.

  python -m sa.seeded [names...] [--jobs N] [--all-checks]
"""
from __future__ import annotations

import json
import os
import shutil
import subprocess
import sys
import tempfile
from concurrent.futures import ThreadPoolExecutor
from typing import Any, Dict, List

VERIF = os.path.dirname(os.path.dirname(os.path.abspath(__file__)))
REPO = os.environ.get('SA_REPO', '/repo')
SEEDED = os.path.join(VERIF, 'seeded')
ALL = [f'C{i:02d}' for i in range(1, 34)]


def run_one(item: Dict[str, Any]) -> Dict[str, Any]:
    d = item['dir']
    tmp = tempfile.mkdtemp(prefix='sa-seed-')
    try:
        rp = os.path.join(tmp, 'repo')
        shutil.copytree(os.path.join(REPO, 'src'), os.path.join(rp, 'src'), ignore=shutil.ignore_patterns('__pycache__'))
        r = subprocess.run(['patch', '-p1', '-s', '-i', os.path.join(d, 'patch.diff')], cwd=rp, capture_output=True, text=True)
        if r.returncode != 0:
            return dict(item, status='STALE', detail=(r.stdout + r.stderr)[-300:], outputs={})
        vdir = os.path.join(tmp, 'verif')
        os.makedirs(vdir)
        shutil.copy(os.path.join(VERIF, 'known_findings.json'), vdir)
        env = dict(os.environ, SA_REPO=rp, SA_VERIF=vdir, PYTHONPATH=VERIF)
        outputs = {}
        for prop in item['props']:
            r = subprocess.run([sys.executable, '-m', 'sa', 'check', prop], capture_output=True, text=True, env=env, cwd=VERIF)
            viol = [ln for ln in r.stdout.splitlines() if ln.startswith('VIOLATION') or ln.startswith('  ')]
            outputs[prop] = {'rc': r.returncode, 'lines': viol[:12], 'tail': r.stdout[-300:] if r.returncode != 1 else ''}
        hit = [p for p, o in outputs.items() if o['rc'] == 1]
        err = [p for p, o in outputs.items() if o['rc'] not in (0, 1)]
        return dict(item, status='REPORTED' if hit else ('ERROR' if err else 'MISSED'), reported_by=hit, outputs=outputs)
    finally:
        shutil.rmtree(tmp, ignore_errors=True)


def main(argv: List[str]) -> int:
    jobs = 8
    if '--jobs' in argv:
        jobs = int(argv[argv.index('--jobs') + 1])
    names = [a for a in argv if not a.startswith('--') and not a.isdigit()]
    items = []
    for prop in sorted(os.listdir(SEEDED)) if os.path.isdir(SEEDED) else []:
        pd = os.path.join(SEEDED, prop)
        if not os.path.isdir(pd) or prop == 'rejected':
            continue
        for name in sorted(os.listdir(pd)):
            d = os.path.join(pd, name)
            if not os.path.exists(os.path.join(d, 'patch.diff')) or (names and name not in names and prop not in names):
                continue
            meta = json.load(open(os.path.join(d, 'meta.json'))) if os.path.exists(os.path.join(d, 'meta.json')) else {}
            props = ALL if '--all-checks' in argv else [prop] + [p for p in meta.get('also', []) if p != prop]
            items.append({'name': name, 'property': prop, 'dir': d, 'props': props, 'summary': meta.get('summary', '')})
    with ThreadPoolExecutor(jobs) as ex:
        res = list(ex.map(run_one, items))
    bad = 0
    for r in res:
        print(f"{r['status']:9} {r['name']:12} {','.join(r.get('reported_by', [])):10} {r['summary'][:110]}")
        with open(os.path.join(r['dir'], 'result.txt'), 'w') as f:
            f.write(f"status: {r['status']}\nreported_by: {r.get('reported_by')}\n")
            for p, o in r.get('outputs', {}).items():
                f.write(f'--- check {p}: exit {o["rc"]}\n' + '\n'.join(o['lines']) + ('\n' + o['tail'] if o['tail'] else '') + '\n')
            if r['status'] == 'STALE':
                f.write(r.get('detail', ''))
        if r['status'] != 'REPORTED':
            bad += 1
    print(f'seeded changes: {len(res)}, reported {len(res) - bad}, not reported {bad}')
    if not names and '--all-checks' not in argv:
        with open(os.path.join(SEEDED, 'README.md'), 'w') as f:
            f.write('# Seeded changes written by independent sub-agents\n\n'
                    'Each directory holds `patch.diff` (against /repo), `demo.py` (the author\'s demonstration), `meta.json` and `result.txt`\n'
                    '(output of the checks on the patched scratch copy; rewritten by `python -m sa.seeded`).  The authors saw only the text of the\n'
                    'property and a scratch worktree; every change keeps the package compiling and the test-suite result unchanged.\n'
                    '`rejected/` holds the changes that were examined and found not to violate the property.\n\n'
                    '| change | seeded for | reported by | what was changed |\n|---|---|---|---|\n')
            for r in res:
                f.write(f"| {r['name']} | {r['property']} | {', '.join(r.get('reported_by', [])) or '**not reported**'} | {r['summary']} |\n")
    return 1 if bad else 0


if __name__ == '__main__':
    sys.exit(main(sys.argv[1:]))
