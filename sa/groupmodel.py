"""Abstract model of OperationGroup / ExecutionContext counter and fee handling (C24, C25).

`lin(term)` normalises integer-valued terms built from +, -, *, constants and opaque atoms into (const, {atom: coeff});
`GroupHooks` lets E4 run fill / autofill / inject with the node (shell), the key and the simulation result opaque.
"""
from __future__ import annotations

from typing import Any, Dict, List, Optional, Tuple

from .absint import App, Builtin, ClassRef, ExcVal, FuncRef, Hooks, Interp, ModRef, Obj, Raised, Sym, vkey, vrepr
from .model import AnalysisError, Repo

G = 'pytezos.operation.group.OperationGroup'
CTX = 'pytezos.context.impl.ExecutionContext'


def lin(t: Any) -> Optional[Tuple[float, Dict[str, float]]]:
    if isinstance(t, bool):
        return None
    if isinstance(t, (int, float)):
        return (t, {})
    if isinstance(t, Sym):
        return (0, {t.name: 1})
    if isinstance(t, App):
        if t.op in ('op:Add', 'op:Sub'):
            a, b = lin(t.args[0]), lin(t.args[1])
            if a is None or b is None:
                return None
            s = 1 if t.op == 'op:Add' else -1
            d = dict(a[1])
            for k, v in b[1].items():
                d[k] = d.get(k, 0) + s * v
            return (a[0] + s * b[0], {k: v for k, v in d.items() if v != 0})
        if t.op == 'op:Mult':
            a, b = lin(t.args[0]), lin(t.args[1])
            if a is None or b is None:
                return None
            if not a[1]:
                return (a[0] * b[0], {k: a[0] * v for k, v in b[1].items() if a[0] * v != 0})
            if not b[1]:
                return (a[0] * b[0], {k: b[0] * v for k, v in a[1].items() if b[0] * v != 0})
            return (0, {vrepr(t): 1})
        if t.op == 'int' and len(t.args) == 1 and isinstance(t.args[0], App) and t.args[0].op == 'str':
            return lin(t.args[0].args[0])
        return (0, {vrepr(t): 1})
    return None


def lin_repr(t: Any) -> str:
    l = lin(t)
    if l is None:
        return vrepr(t)
    c, d = l
    parts = [f'{"" if v == 1 else str(v) + "*"}{k}' for k, v in sorted(d.items())]
    if c or not parts:
        parts.append(str(c))
    return ' + '.join(parts)


class GroupHooks(Hooks):
    def __init__(self, repo: Repo, inline_fees: bool = False, post_may_fail: bool = False, simulation_fails: bool = False, mempool_fails: bool = False):
        self.repo = repo
        self.mempool_fails = mempool_fails
        self.simulation_fails = simulation_fails
        self.inline_fees = inline_fees
        self.post_may_fail = post_may_fail
        self.epoch = 0

    def reset(self, it):
        self.epoch = 0

    def inline(self, it, fi):
        q = fi.qualname
        if q in (f'{G}.fill', f'{G}.autofill', f'{G}.inject', f'{G}._spawn', f'{G}.send', f'{CTX}.get_counter', f'{CTX}.set_counter',
                 f'{CTX}.reset', 'pytezos.context.mixin.ContextMixin.shell', 'pytezos.context.mixin.ContextMixin.key'):
            return True
        if self.inline_fees and fi.module.name == 'pytezos.operation.fees':
            return True
        return False

    def _node_error(self, callee, what: str):
        from .absint import ExcVal, Raised

        kind, ecls = self.repo.lookup(self.repo.resolve_name(self.repo.modules[G.rsplit('.', 1)[0]], 'RpcError'))  # the error class the group module itself names
        if kind != 'class':
            raise AnalysisError('the RPC error class is not visible from the operation group module: idiom not modelled')
        raise Raised(ExcVal(ecls.qualname, (what,), origin='the node'))

    def truth(self, it, term):
        if isinstance(term, Sym) and term.name in ('key', 'shell'):
            return True
        if isinstance(term, App) and term.op == 'is' and isinstance(term.args[0], (Sym, App)) and term.args[1] is None:
            return False  # symbolic arguments stand for given (non-None) values
        if isinstance(term, App) and term.op.startswith('op:'):
            l = lin(term)
            if l is not None and l[0] > 0 and all(v >= 0 for v in l[1].values()):
                return True  # sizes, gas amounts and counters are non-negative
        return None

    def name(self, it, name, node):
        if name == 'logger':
            return Sym('logger')
        return NotImplemented

    def call(self, it, callee, args, kwargs, node):
        if isinstance(callee, ClassRef) and callee.qual == G:
            f = {'context': None, 'contents': None, 'protocol': None, 'chain_id': None, 'branch': None, 'signature': None,
                 'opg_hash': None, 'opg_result': None}
            names = list(f)
            for n, v in zip(names, args):
                f[n] = v
            f.update(kwargs)
            f['contents'] = f['contents'] or []
            return Obj(G, f)
        if isinstance(callee, Builtin) and callee.name == 'int' and len(args) == 1 and isinstance(args[0], App) and "'contracts'" in vrepr(args[0]) \
                and "'counter'" in vrepr(args[0]):
            it.event('read-node-counter', self.epoch)
            return Sym(f'N{self.epoch}', 'int')
        if isinstance(callee, App) and callee.op == 'attr':
            recv, name = callee.args
            s = vrepr(recv)
            if isinstance(recv, Sym) and recv.name == 'logger':
                return None
            if name == 'post' and 'injection' in s:
                it.event('POST')
                if self.post_may_fail and it.choose(2) == 1:
                    raise Raised(ExcVal('pytezos.rpc.node.RpcError', ('injection failed',)))
                self.epoch += 1
                return Sym('opg_hash', 'str')
        if isinstance(callee, FuncRef) and callee.fi is not None:
            q = callee.fi.qualname
            n = callee.fi.name
            if q == f'{CTX}.get_operations_ttl':
                return 5
            if q == f'{CTX}.get_chain_id':
                return Sym('chain_id', 'str')
            if q == f'{CTX}.get_protocol':
                return Sym('protocol', 'str')
            if q == f'{CTX}.get_counter_offset':
                it.event('read-mempool-offset')
                if self.mempool_fails:
                    self._node_error(callee, 'pending_operations failed')
                return Sym('OFFSET', 'int')
            if q == f'{G}.binary_payload':
                return Sym('payload', 'bytes')
            if q == f'{G}.json_payload':
                return {}
            if q == f'{G}.run':
                it.event('simulate')
                if self.simulation_fails:
                    self._node_error(callee, 'run_operation failed')
                # the simulation echoes the filled contents with metadata
                me = callee.self_val
                return {'contents': [dict(c, metadata=Sym(f'meta{i}')) for i, c in enumerate(me.fields['contents'])]}
            if callee.fi.cls is not None and callee.fi.cls.name == 'OperationResult':
                if n == 'is_applied':
                    return True
                if n == 'consumed_gas':
                    return Sym('GAS_' + _idx(args[0]), 'int')
                if n == 'paid_storage_size_diff':
                    return Sym('PAID_' + _idx(args[0]), 'int')
                if n == 'burned':
                    return Sym('BURN_' + _idx(args[0]), 'int')
            if not self.inline_fees and callee.fi.module.name == 'pytezos.operation.fees':
                return App(n, *[a for a in args if not isinstance(a, dict)], *[App('kw', k, v) for k, v in sorted(kwargs.items()) if not isinstance(v, dict)])
            if q == 'pytezos.operation.forge.forge_operation':
                if isinstance(args[0], dict):
                    it.event('measured', _idx(args[0]), dict(args[0]))  # the content whose size is being priced, as it is at that moment
                return Sym('FORGED_' + _idx(args[0]), 'bytes')
        if isinstance(callee, Builtin) and callee.name == 'callable' and args and isinstance(args[0], (Sym, App)):
            return False  # values obtained from the node / the key are data, not callables
        if isinstance(callee, Builtin) and callee.name == 'len' and args and isinstance(args[0], Sym) and args[0].name.startswith('FORGED_'):
            return Sym('SIZE_' + args[0].name[7:], 'int')
        return NotImplemented


def _idx(content: Any) -> str:
    if isinstance(content, dict):
        m = content.get('metadata')
        if isinstance(m, Sym):
            return m.name.replace('meta', '')
        t = content.get('_tag')
        if t is not None:
            return str(t)
    return '?'


def mk_group(n_contents: int = 2, kind: str = 'transaction', counter: Any = '0', extra: Optional[Dict[str, Any]] = None) -> Obj:
    ctx = Obj(CTX, {'counter': None, 'key': Sym('key'), 'shell': Sym('shell'), 'origination_index': 1, 'tmp_big_map_index': 0,
                    'tmp_sapling_index': 0, 'alloc_big_map_index': 0, 'alloc_sapling_index': 0, 'balance_update': 0,
                    'big_maps': {}, 'tzt_big_maps': {}, 'global_constants': {}})
    contents = [{'kind': kind, 'source': '', 'fee': '0', 'counter': counter, 'gas_limit': '0', 'storage_limit': '0', 'amount': '1',
                 'destination': 'tz1dest', '_tag': i, **(extra or {})} for i in range(n_contents)]
    return Obj(G, {'context': ctx, 'contents': contents, 'protocol': None, 'chain_id': None, 'branch': None, 'signature': Sym('signature', 'str'),
                   'opg_hash': None, 'opg_result': None})
